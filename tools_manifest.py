#!/usr/bin/env python3
"""Regenerates MANIFEST.json from the table below (kept as code so that it stays valid)."""
import json, os
ROOT = os.path.dirname(os.path.abspath(__file__))

CHECKS = {
 "C01": ("4.C01", "model-free replay invariant over generated scripts x balance sheets (rapid)",
         "Generated-input search: every successful execution of a generated script is replayed posting by posting on the generated balance sheet and the overdraft bound of the property is asserted after each posting. Absence is not established; the claim is 'no counterexample among N generated cases of the stated shape'."),
 "C02": ("4.C02", "per-posting validity predicate over generated scripts (rapid)",
         "Generated-input search with a validity predicate on every posting (sign, asset of the producing statement, denotable names)."),
 "C03": ("4.C03", "differential against an independent reference interpreter (rapid)",
         "Generated-input search against a reference interpreter written from the property statements: agreement on success/failure, failure class, atomicity on both entry points, per-statement sums."),
 "C04": ("4.C04", "differential against the reference greedy-draw model (rapid)",
         "Generated-input search: per statement and account, debits must equal the reference greedy draw; send-all shape rejections in both directions."),
 "C05": ("4.C05", "differential against the reference distribution model (rapid)",
         "Generated-input search: per statement and account, credits must equal the reference capped distribution; credited + kept = sent."),
 "C06": ("4.C06", "exhaustive small-scope enumeration + generated big-number sampling against independent rational arithmetic",
         "Complete enumeration of portion vectors with small denominators x small totals x spellings x sides, plus generated long vectors / huge totals; oracle is independent big-rational arithmetic."),
 "C07": ("4.C07", "exhaustive enumeration of Reconcile inputs + generated scripts against a unit-by-unit pairing oracle",
         "Complete enumeration of short sender/receiver lists with small amounts on interpreter.Reconcile, plus generated scripts inducing chosen draw/distribution lists and free-form scripts; oracle is the obviously-correct unit-by-unit pairing."),
 "C08": ("4.C08", "differential against the reference visible-balance model (rapid)",
         "Generated save/send sequences compared with the reference model's visible-balance rule for every later statement."),
 "C09": ("4.C09", "metamorphic relation between whole-script and split executions of the real interpreter (rapid)",
         "Generated scripts, every split point: run(whole) = run(first) ++ run(rest on updated balances), metadata second-over-first."),
 "C10": ("4.C10", "differential execution across store behaviours + requested-balance monitor (rapid)",
         "Generated scripts (with balance()/overdraft()/meta() origins) executed against exact / sparse / superset / static stores: results must be identical; no request names world; every balance the reference execution consults was requested."),
 "C11": ("4.C11", "repetition, input-snapshot comparison and concurrent runs under the race detector over generated scripts (rapid, -race build)",
         "Generated scripts run repeatedly and from many goroutines on one ParseResult with stores that hand out their own maps; inputs compared before/after; binary built with -race, any race report is a violation; flag sets compared."),
 "C12": ("4.C12", "generated arbitrary inputs with crash/atomicity oracle + single-fault injection with expected error class + exhaustive store-fault enumeration per script",
         "Three generated searches: arbitrary scripts x arbitrary variable texts (no panic, error xor result on both entry points, typed error); single-fault scripts (expected class or success); a store failure injected at every call index of every generated script (fault_enumeration inside an exploration)."),
 "C13": ("4.C13", "exhaustive enumeration of short portion texts + generated long numerals against independent base-ten arithmetic; generated round trips through metadata",
         "Complete enumeration of the portion-literal grammar for short digit strings (literal and variable), generated long numerals, and generated round trips of values of the six types through account/transaction metadata (fixed point + operational equality)."),
 "C14": ("4.C14", "mutation-based generation of texts + exhaustive prefixes against an independent reference recogniser and a crash oracle",
         "Every byte prefix of the corpus scripts plus generated mutations of corpus / grammar-complete scripts; oracle: no panic, reference recogniser (independent lexer + recursive-descent parser) agrees on valid/invalid, error positions inside the text."),
 "C15": ("4.C15", "round trip generator-tree -> layout printer -> real parser -> tree comparison incl. ranges; differential against an independent reference parser on arbitrary valid texts (rapid)",
         "Grammar-complete generated trees printed under canonical and random layouts (comments, CRLF, lone CR, non-ASCII, comments glued to tokens) and compared node by node, values and ranges, with the tree the real parser builds; arbitrary valid texts (corpus, generated, mutated) parsed by the real parser and by an independent reference parser with spans must give the same tree."),
 "C18": ("4.C18", "mutation-based generation of texts x every cursor position with crash, range-validity and determinism oracles",
         "Typing sequences of the corpus scripts plus generated mutations, analysed twice and queried for hover / definition at every position."),
 "C16": ("4.C16", "valid-by-construction generation with a no-error oracle + name-edit generation against an independent name model (rapid)",
         "Generated statically valid scripts must receive no error-severity diagnostic; the same scripts after name edits must receive exactly the undeclared / repeated / unused reports an independent name model (over the generator's tree and printer spans) predicts."),
 "C17": ("4.C17", "differential checker-vs-interpreter over generated type-breaking edits (rapid)",
         "Generated well-typed scripts broken by one or two type-level edits are both checked and executed; a clean check must exclude static-class run-time failures (and a silent check, send-all shape failures)."),
 "C19": ("4.C19", "model-based history generation and exhaustive short histories against a fresh-state oracle (in process and over the wire against the real numscript lsp process); absolute navigation oracle over every position",
         "Generated and exhaustively enumerated LSP request histories on one long-lived server state are compared, response by response and notification by notification (stdout captured), with a fresh state that only saw the latest text; navigation is checked absolutely at every cursor position of generated scripts against the printer's spans; the same histories are framed and piped into the real server process (one answer per request id, diagnostics in order, clean exit)."),
 "C20": ("4.C20", "differential CLI-vs-library over generated scripts and input channels (process-level)",
         "The numscript binary built from the working tree is run on generated scripts through every input channel; exit status, diagnostics and JSON output are compared with what the library computes."),
}

def main():
    checks = []
    for pid, (ref, tech, text) in sorted(CHECKS.items()):
        checks.append({
            "property_id": pid,
            "quick_cmd": "./vcheck %s --tier quick" % pid,
            "thorough_cmd": "./vcheck %s --tier thorough" % pid,
            "evidence_file": "evidence/%s.json" % pid,
            "replay_cmd_template": "./vcheck %s --replay {path}" % pid,
            "engine": "harness/props (rapid v1.3.0) driven by vcheck",
            "level_claimed": {"category": "exploration", "text": text, "design_ref": "DESIGN.md section " + ref},
            "level_note": "Trusted base: the harness's own reference model / oracles (harness/model, harness/lex), rapid's generators, the Go toolchain; the overlay package harness/_overlay/api.go only aliases internal identifiers. Bounded search: no claim beyond the generated and enumerated cases.",
            "technique": tech,
        })
    props = [json.loads(l)["id"] for l in open(os.path.join(ROOT, "properties.jsonl"))]
    na = [{"property_id": p, "reason": "check under construction in this session (generated-input search applies; see DESIGN.md section 4)"} for p in props if p not in CHECKS]
    m = {
        "version": 1,
        "setup_cmd": "./setup.sh",
        "hooks": {
            "guard": "none (build-time -overlay; no source change in /repo is needed for instrumentation)",
            "enable": "go test -c -vet=off -overlay=<generated overlay.json> injects the virtual package github.com/formancehq/numscript/verifapi (harness/_overlay/api.go, aliases only) into the module at build time",
            "baseline_off_cmd": "cd /repo && go test -vet=off -count=1 ./...",
            "source_commits": [],
            "add_only": True,
        },
        "engines": [
            {"name": "script model, printers, generators", "path": "harness/gen", "serves_properties": props, "kind_free_text": "structured generation with rapid, layout printer with spans"},
            {"name": "reference interpreter", "path": "harness/model", "serves_properties": ["C03", "C04", "C05", "C06", "C07", "C08", "C09", "C12"], "kind_free_text": "reference model oracle"},
            {"name": "reference lexer", "path": "harness/lex", "serves_properties": ["C14", "C15", "C18", "C19"], "kind_free_text": "independent lexer written from Numscript.g4"},
            {"name": "reference parser", "path": "harness/syntax", "serves_properties": ["C14", "C15"], "kind_free_text": "independent recursive-descent recogniser / parser with spans written from Numscript.g4"},
            {"name": "store doubles", "path": "harness/doubles", "serves_properties": ["C10", "C11", "C12"], "kind_free_text": "recording / differential / fault-injecting stores"},
            {"name": "property checks", "path": "harness/props", "serves_properties": props, "kind_free_text": "one registered check per property, single TestProp entry point"},
            {"name": "driver", "path": "vcheck", "serves_properties": props, "kind_free_text": "build via overlay from the current tree, shard, merge evidence, findings, replay"},
        ],
        "checks": checks,
        "not_applicable": na,
        "notes": "Every check rebuilds the harness against /repo's working tree (VERIF_REPO overrides). Exit 2 = inconclusive (build failure, harness self-check failure, time-out).",
    }
    json.dump(m, open(os.path.join(ROOT, "MANIFEST.json"), "w"), indent=1)

if __name__ == "__main__":
    main()
