module verifharness

go 1.23

toolchain go1.23.5

require (
	github.com/formancehq/numscript v0.0.0
	pgregory.net/rapid v1.3.0
)

require (
	github.com/antlr4-go/antlr/v4 v4.13.1 // indirect
	github.com/sourcegraph/jsonrpc2 v0.2.0 // indirect
	golang.org/x/exp v0.0.0-20240707233637-46b078467d37 // indirect
)

replace github.com/formancehq/numscript => /repo
