// Package doubles provides Store implementations over one content map. All record
// their calls. They differ only in *how* they answer, never in what the content is.
package doubles

import (
	"context"
	"errors"
	"fmt"
	"math/big"
	"sort"
	"sync"

	"github.com/formancehq/numscript"
)

type Content struct {
	Balances map[string]map[string]*big.Int
	Meta     map[string]map[string]string
}

func (c Content) bal(acct, asset string) (*big.Int, bool) {
	if m, ok := c.Balances[acct]; ok {
		if v, ok := m[asset]; ok {
			return v, true
		}
	}
	return nil, false
}

// Mode of answering
const (
	Exact    = "exact"    // exactly the requested pairs, zeros included, fresh maps
	Sparse   = "sparse"   // requested pairs that exist and are non-zero only
	Superset = "superset" // deep copy of the whole content whatever was asked
	Shared   = "shared"   // hands out its own internal maps (to observe mutation)
	NilMaps  = "nilmaps"  // like sparse, but an answer without entries is a nil map (and accounts without entries are absent)
)

type Call struct {
	Kind  string // "balances" | "meta"
	Query map[string][]string
}

type Store struct {
	Mode    string
	Content Content
	// FailAt >= 0: the FailAt-th call (0-based, counting both kinds) returns FailErr
	FailAt  int
	FailErr error

	mu    sync.Mutex
	Calls []Call
	// own maps handed out in Shared mode
	shared     numscript.Balances
	sharedMeta numscript.AccountsMetadata
	// every answer handed out in the per-query modes, with its content at that moment: the
	// maps obtained from the store belong to the store (or its client), not to the interpreter
	handedBal  []handedBalances
	handedMeta []handedMetadata
}

type handedBalances struct {
	ref  numscript.Balances
	copy map[string]map[string]string
}

type handedMetadata struct {
	ref  numscript.AccountsMetadata
	copy map[string]map[string]string
}

func (s *Store) keepBalances(out numscript.Balances) {
	c := map[string]map[string]string{}
	for a, m := range out {
		c[a] = map[string]string{}
		for k, v := range m {
			c[a][k] = v.String()
		}
	}
	s.mu.Lock()
	s.handedBal = append(s.handedBal, handedBalances{ref: out, copy: c})
	s.mu.Unlock()
}

func (s *Store) keepMetadata(out numscript.AccountsMetadata) {
	c := map[string]map[string]string{}
	for a, m := range out {
		c[a] = map[string]string{}
		for k, v := range m {
			c[a][k] = v
		}
	}
	s.mu.Lock()
	s.handedMeta = append(s.handedMeta, handedMetadata{ref: out, copy: c})
	s.mu.Unlock()
}

// HandedOutIntact reports whether every answer this store gave (per-query modes) still has
// the content it had when it was returned. Call it when no execution is in flight.
func (s *Store) HandedOutIntact() (string, bool) {
	s.mu.Lock()
	defer s.mu.Unlock()
	for i, h := range s.handedBal {
		now := map[string]map[string]string{}
		for a, m := range h.ref {
			now[a] = map[string]string{}
			for k, v := range m {
				now[a][k] = v.String()
			}
		}
		if fmt.Sprint(now) != fmt.Sprint(h.copy) {
			return fmt.Sprintf("balances answer #%d was %v when returned and is %v now", i, h.copy, now), false
		}
	}
	for i, h := range s.handedMeta {
		now := map[string]map[string]string{}
		for a, m := range h.ref {
			now[a] = map[string]string{}
			for k, v := range m {
				now[a][k] = v
			}
		}
		if fmt.Sprint(now) != fmt.Sprint(h.copy) {
			return fmt.Sprintf("metadata answer #%d was %v when returned and is %v now", i, h.copy, now), false
		}
	}
	return "", true
}

func New(mode string, c Content) *Store {
	s := &Store{Mode: mode, Content: c, FailAt: -1}
	if mode == Shared {
		s.shared = numscript.Balances{}
		for a, m := range c.Balances {
			s.shared[a] = numscript.AccountBalance{}
			for k, v := range m {
				s.shared[a][k] = new(big.Int).Set(v)
			}
		}
		s.sharedMeta = numscript.AccountsMetadata{}
		for a, m := range c.Meta {
			s.sharedMeta[a] = numscript.AccountMetadata{}
			for k, v := range m {
				s.sharedMeta[a][k] = v
			}
		}
	}
	return s
}

func copyQuery(q map[string][]string) map[string][]string {
	out := map[string][]string{}
	for k, v := range q {
		out[k] = append([]string(nil), v...)
	}
	return out
}

func (s *Store) record(kind string, q map[string][]string) (int, error) {
	s.mu.Lock()
	defer s.mu.Unlock()
	idx := len(s.Calls)
	s.Calls = append(s.Calls, Call{Kind: kind, Query: copyQuery(q)})
	if s.FailAt == idx {
		if s.FailErr != nil {
			return idx, s.FailErr
		}
		return idx, errors.New(fmt.Sprintf("injected store failure at call %d", idx))
	}
	return idx, nil
}

func (s *Store) GetBalances(_ context.Context, q numscript.BalanceQuery) (numscript.Balances, error) {
	if _, err := s.record("balances", q); err != nil {
		return nil, err
	}
	out := numscript.Balances{}
	switch s.Mode {
	case Exact:
		for a, assets := range q {
			out[a] = numscript.AccountBalance{}
			for _, as := range assets {
				if v, ok := s.Content.bal(a, as); ok {
					out[a][as] = new(big.Int).Set(v)
				} else {
					out[a][as] = new(big.Int)
				}
			}
		}
	case Sparse, NilMaps:
		for a, assets := range q {
			for _, as := range assets {
				if v, ok := s.Content.bal(a, as); ok && v.Sign() != 0 {
					if out[a] == nil {
						out[a] = numscript.AccountBalance{}
					}
					out[a][as] = new(big.Int).Set(v)
				}
			}
		}
	case Superset:
		for a, m := range s.Content.Balances {
			out[a] = numscript.AccountBalance{}
			for k, v := range m {
				out[a][k] = new(big.Int).Set(v)
			}
		}
	case Shared:
		return s.shared, nil
	default:
		panic("unknown store mode " + s.Mode)
	}
	if s.Mode == NilMaps && len(out) == 0 {
		return nil, nil
	}
	s.keepBalances(out)
	return out, nil
}

func (s *Store) GetAccountsMetadata(_ context.Context, q numscript.MetadataQuery) (numscript.AccountsMetadata, error) {
	if _, err := s.record("meta", q); err != nil {
		return nil, err
	}
	out := numscript.AccountsMetadata{}
	switch s.Mode {
	case Exact, Sparse, NilMaps:
		for a, keys := range q {
			for _, k := range keys {
				if v, ok := s.Content.Meta[a][k]; ok {
					if out[a] == nil {
						out[a] = numscript.AccountMetadata{}
					}
					out[a][k] = v
				}
			}
		}
	case Superset:
		for a, m := range s.Content.Meta {
			out[a] = numscript.AccountMetadata{}
			for k, v := range m {
				out[a][k] = v
			}
		}
	case Shared:
		return s.sharedMeta, nil
	}
	if s.Mode == NilMaps && len(out) == 0 {
		return nil, nil
	}
	s.keepMetadata(out)
	return out, nil
}

// SharedSnapshot returns the present content of the maps a Shared store hands out.
func (s *Store) SharedSnapshot() (map[string]map[string]string, map[string]map[string]string) {
	b := map[string]map[string]string{}
	for a, m := range s.shared {
		b[a] = map[string]string{}
		for k, v := range m {
			b[a][k] = v.String()
		}
	}
	m2 := map[string]map[string]string{}
	for a, m := range s.sharedMeta {
		m2[a] = map[string]string{}
		for k, v := range m {
			m2[a][k] = v
		}
	}
	return b, m2
}

// Requested lists every (account, asset) pair asked for, sorted.
func (s *Store) Requested() [][2]string {
	set := map[[2]string]bool{}
	for _, c := range s.Calls {
		if c.Kind != "balances" {
			continue
		}
		for a, as := range c.Query {
			for _, x := range as {
				set[[2]string{a, x}] = true
			}
		}
	}
	out := make([][2]string, 0, len(set))
	for k := range set {
		out = append(out, k)
	}
	sort.Slice(out, func(i, j int) bool {
		if out[i][0] != out[j][0] {
			return out[i][0] < out[j][0]
		}
		return out[i][1] < out[j][1]
	})
	return out
}
