// mkcase turns a script text and its inputs into a replay / corpus file for the
// execution properties (the script is read with the harness's reference parser).
package main

import (
	"encoding/json"
	"flag"
	"fmt"
	"os"
	"strings"

	"verifharness/gen"
	"verifharness/syntax"
)

func main() {
	prop := flag.String("prop", "", "property id")
	script := flag.String("script", "", "script text")
	vars := flag.String("vars", "{}", "variables JSON")
	balances := flag.String("balances", "{}", "balances JSON (decimal strings)")
	meta := flag.String("meta", "{}", "metadata JSON")
	flags := flag.String("flags", "", "comma separated feature flags")
	wrap := flag.String("wrap", "", "wrapper: c15 | c17:<edit> | c16n:<edit>")
	note := flag.String("note", "", "note")
	flag.Parse()
	v := syntax.Parse(*script)
	if !v.Valid {
		fmt.Fprintln(os.Stderr, "script does not parse with the reference parser")
		os.Exit(1)
	}
	ec := &gen.ExecCase{Script: v.Script}
	json.Unmarshal([]byte(*vars), &ec.Vars)
	json.Unmarshal([]byte(*balances), &ec.Balances)
	json.Unmarshal([]byte(*meta), &ec.Meta)
	if *flags != "" {
		ec.Flags = strings.Split(*flags, ",")
	}
	var c any = ec
	switch {
	case *wrap == "c15":
		c = map[string]any{"script": v.Script, "seps": []string{" ", "\n"}}
	case strings.HasPrefix(*wrap, "c17:"):
		c = map[string]any{"case": ec, "edit": strings.TrimPrefix(*wrap, "c17:")}
	case strings.HasPrefix(*wrap, "c16n:"):
		c = map[string]any{"script": v.Script, "edit": strings.TrimPrefix(*wrap, "c16n:")}
	}
	out, _ := json.MarshalIndent(map[string]any{"property": *prop, "note": *note, "case": c}, "", " ")
	fmt.Println(string(out))
}
