// Package lex is an independent lexer for Numscript, written from the token rules of
// Numscript.g4 (maximal munch, first rule wins ties). It shares no code with the
// ANTLR-generated lexer of the repository. It is used by the layout printer (to decide
// which separators keep two tokens apart), by the reference recogniser (oracle of C14)
// and by the reference parser.
package lex

import (
	"regexp"
	"strings"
	"unicode/utf8"
)

type Kind string

const (
	VARS        Kind = "vars"
	MAX         Kind = "max"
	SOURCE      Kind = "source"
	DESTINATION Kind = "destination"
	SEND        Kind = "send"
	FROM        Kind = "from"
	UP          Kind = "up"
	TO          Kind = "to"
	REMAINING   Kind = "remaining"
	ALLOWING    Kind = "allowing"
	UNBOUNDED   Kind = "unbounded"
	OVERDRAFT   Kind = "overdraft"
	KEPT        Kind = "kept"
	SAVE        Kind = "save"
	LPARENS     Kind = "("
	RPARENS     Kind = ")"
	LBRACKET    Kind = "["
	RBRACKET    Kind = "]"
	LBRACE      Kind = "{"
	RBRACE      Kind = "}"
	COMMA       Kind = ","
	EQ          Kind = "="
	STAR        Kind = "*"
	MINUS       Kind = "-"
	PLUS        Kind = "+"
	RATIO       Kind = "RATIO"
	PERCENT     Kind = "PERCENT"
	STRING      Kind = "STRING"
	IDENT       Kind = "IDENT"
	NUMBER      Kind = "NUMBER"
	VARNAME     Kind = "VARNAME"
	ACCOUNT     Kind = "ACCOUNT"
	ASSET       Kind = "ASSET"
	EOF         Kind = "EOF"
)

var keywords = map[string]Kind{
	"vars": VARS, "max": MAX, "source": SOURCE, "destination": DESTINATION, "send": SEND,
	"from": FROM, "up": UP, "to": TO, "remaining": REMAINING, "allowing": ALLOWING,
	"unbounded": UNBOUNDED, "overdraft": OVERDRAFT, "kept": KEPT, "save": SAVE,
}

var punct = map[byte]Kind{
	'(': LPARENS, ')': RPARENS, '[': LBRACKET, ']': RBRACKET, '{': LBRACE, '}': RBRACE,
	',': COMMA, '=': EQ, '*': STAR, '-': MINUS, '+': PLUS,
}

type Token struct {
	Kind Kind
	Text string
	Off  int // byte offset
	Line int // zero based
	Col  int // zero based, in code points (invalid bytes count one each)
}

// Result of lexing a whole text.
type Result struct {
	Tokens []Token // without EOF
	// Errors: byte offsets of characters no rule matches (ANTLR "token recognition error").
	Errors []int
	// Uncertain is set when the text contains a construct on which this emulation is not
	// sure to agree with ANTLR's non-greedy comment rules (an inner "/*" that is not
	// closed, or overlapping comment delimiters). Oracles abstain on such inputs.
	Uncertain bool
}

func mk(p string) *regexp.Regexp {
	r := regexp.MustCompile(`^(?s:` + p + `)`)
	r.Longest()
	return r
}

var (
	reWS      = mk(`[ \t\r\n]+`)
	reRatio   = mk(`[0-9]+ ?/ ?[0-9]+`)
	rePercent = mk(`[0-9]+(\.[0-9]+)?%`)
	reString  = mk(`"(\\"|[^\r\n"])*"`)
	reIdent   = mk(`[a-z]+[a-z_]*`)
	reNumber  = mk(`-?[0-9]+`)
	reVar     = mk(`\$[a-z_]+[a-z0-9_]*`)
	reAccount = mk(`@[a-zA-Z0-9_\-]+(:[a-zA-Z0-9_\-]+)*`)
	reAsset   = mk(`[A-Z/0-9]+`)
)

func mlen(r *regexp.Regexp, s string) int {
	loc := r.FindStringIndex(s)
	if loc == nil {
		return 0
	}
	return loc[1]
}

// lineCommentLen: '//' .*? NEWLINE where NEWLINE is [\r\n]+ ; 0 when there is no newline.
func lineCommentLen(s string) int {
	if !strings.HasPrefix(s, "//") {
		return 0
	}
	i := strings.IndexAny(s[2:], "\r\n")
	if i < 0 {
		return 0
	}
	j := 2 + i
	for j < len(s) && (s[j] == '\r' || s[j] == '\n') {
		j++
	}
	return j
}

// blockCommentLen: '/*' (MULTILINE_COMMENT | .)*? '*/'
// Returns (length, uncertain). Nested comments that are balanced are matched as a whole
// (the first alternative of the loop body has priority and is never pruned); when the
// nesting never closes ANTLR falls back to a shorter accept state, which this function
// approximates by the first "*/" and reports as uncertain.
func blockCommentLen(s string) (int, bool) {
	if !strings.HasPrefix(s, "/*") {
		return 0, false
	}
	// balanced scan
	depth := 1
	i := 2
	inner := false
	overlap := false
	for i < len(s) {
		if strings.HasPrefix(s[i:], "/*") {
			if strings.HasPrefix(s[i:], "/*/") {
				overlap = true
			}
			depth++
			inner = true
			i += 2
			continue
		}
		if strings.HasPrefix(s[i:], "*/") {
			if strings.HasPrefix(s[i:], "*/*") {
				overlap = true
			}
			depth--
			i += 2
			if depth == 0 {
				return i, inner && overlap
			}
			continue
		}
		i++
	}
	// unbalanced: fall back to the first closer, if any
	j := strings.Index(s[2:], "*/")
	if j < 0 {
		return 0, inner
	}
	return 2 + j + 2, true
}

// Lex tokenises the whole text.
func Lex(text string) Result {
	var res Result
	off := 0
	line, col := 0, 0
	advance := func(n int) {
		seg := text[off : off+n]
		for len(seg) > 0 {
			r, sz := utf8.DecodeRuneInString(seg)
			if r == '\n' {
				line++
				col = 0
			} else {
				col++
			}
			seg = seg[sz:]
		}
		off += n
	}
	for off < len(text) {
		s := text[off:]
		// candidates in rule order; keep the longest, first wins ties
		best, bestKind, skip := 0, Kind(""), false
		consider := func(n int, k Kind, sk bool) {
			if n > best {
				best, bestKind, skip = n, k, sk
			}
		}
		c := s[0]
		switch {
		case c == ' ' || c == '\t' || c == '\r' || c == '\n':
			consider(mlen(reWS, s), "", true)
		case c == '/':
			n, unc := blockCommentLen(s)
			if unc {
				res.Uncertain = true
			}
			consider(n, "", true)
			consider(lineCommentLen(s), "", true)
			consider(mlen(reAsset, s), ASSET, false)
		case c >= 'a' && c <= 'z':
			n := mlen(reIdent, s)
			if k, ok := keywords[s[:n]]; ok {
				consider(n, k, false)
			} else {
				consider(n, IDENT, false)
			}
		case c >= '0' && c <= '9':
			consider(mlen(reRatio, s), RATIO, false)
			consider(mlen(rePercent, s), PERCENT, false)
			consider(mlen(reNumber, s), NUMBER, false)
			consider(mlen(reAsset, s), ASSET, false)
		case c == '-':
			consider(1, MINUS, false)
			consider(mlen(reNumber, s), NUMBER, false)
		case c == '"':
			consider(mlen(reString, s), STRING, false)
		case c == '$':
			consider(mlen(reVar, s), VARNAME, false)
		case c == '@':
			consider(mlen(reAccount, s), ACCOUNT, false)
		case c >= 'A' && c <= 'Z':
			consider(mlen(reAsset, s), ASSET, false)
		default:
			if k, ok := punct[c]; ok {
				consider(1, k, false)
			}
		}
		if best == 0 {
			res.Errors = append(res.Errors, off)
			_, sz := utf8.DecodeRuneInString(s)
			// ANTLR may have consumed more than one character before failing (e.g. an
			// unterminated string); the exact resynchronisation point does not matter to
			// the oracles (any lexical error makes the text invalid) but token streams
			// after an error are not compared.
			advance(sz)
			continue
		}
		if !skip {
			res.Tokens = append(res.Tokens, Token{Kind: bestKind, Text: s[:best], Off: off, Line: line, Col: col})
		}
		advance(best)
	}
	return res
}

// SameTokens reports whether lexing text yields exactly the given token texts, without errors.
func SameTokens(text string, want ...string) bool {
	r := Lex(text)
	if len(r.Errors) != 0 || len(r.Tokens) != len(want) {
		return false
	}
	for i, t := range r.Tokens {
		if t.Text != want[i] {
			return false
		}
	}
	return true
}

// RuneLen counts code points the way ANTLR's input stream does ([]rune conversion).
func RuneLen(s string) int { return len([]rune(s)) }
