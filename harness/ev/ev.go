// Package ev is the plumbing shared by all property checks: the property registry, the
// verdict type, evidence recording (counts, distinct non-trivial cases, labels, samples),
// known-finding classification and replay files.
package ev

import (
	"encoding/binary"
	"encoding/json"
	"fmt"
	"hash/fnv"
	"os"
	"path/filepath"
	"sort"
)

// Verdict is the outcome of checking one case.
type Verdict struct {
	// Violation is non-empty when the property is violated on this case.
	Violation string
	// Class tags the violation for known-finding matching (call site / shape), "" = unclassified.
	Class string
	// HarnessError is non-empty when the harness itself is inconsistent on this case
	// (printer/reference-parser disagreement...). It is never reported as a violation.
	HarnessError string
	// Skipped: the case is outside the property's domain (reason); counted.
	Skipped string
	// NonTrivial: the case satisfies the property's stated non-trivial rule.
	NonTrivial bool
	Labels     []string
	// Excluded counts sub-cases skipped because they fall in a known finding's class.
	Excluded int
}

func (v *Verdict) Label(l ...string) { v.Labels = append(v.Labels, l...) }

func (v *Verdict) Failf(class, f string, a ...any) *Verdict {
	if v.Violation == "" {
		v.Violation = fmt.Sprintf(f, a...)
		v.Class = class
	}
	return v
}

// Prop is one registered property check.
type Prop struct {
	ID   string
	Rule string // generation + non-trivial rule, for the evidence file
	// New returns an empty case value (pointer) for JSON decoding.
	New func() any
	// Check is pure: it decides one case.
	Check func(c any) *Verdict
	// Enumerate (optional) visits the cases of a finite sub-space completely; the
	// shard/nshards pair partitions the space. It returns true when the sub-space it
	// announces was covered completely.
	Enumerate func(tier string, shard, nshards int, visit func(c any) bool) (what string, complete bool)
	// Assumptions listed in the evidence file.
	Assumptions []string
}

var Registry = map[string]*Prop{}

func Register(p *Prop) { Registry[p.ID] = p }

// ---- known findings

type Finding struct {
	Status   string `json:"status"` // known | fixed
	Property string `json:"property"`
	ID       string `json:"id"`
	Class    string `json:"class"`
	Replay   string `json:"replay,omitempty"`
	What     string `json:"what"`
	Commit   string `json:"commit,omitempty"`
}

type Findings struct {
	Findings []Finding `json:"findings"`
}

func LoadFindings(path string) (Findings, error) {
	var f Findings
	b, err := os.ReadFile(path)
	if err != nil {
		if os.IsNotExist(err) {
			return f, nil
		}
		return f, err
	}
	err = json.Unmarshal(b, &f)
	return f, err
}

// Known returns the known (unrepaired) finding of this property with this class, if any.
func (f Findings) Known(prop, class string) *Finding {
	if class == "" {
		return nil
	}
	for i := range f.Findings {
		x := &f.Findings[i]
		if x.Status == "known" && x.Property == prop && x.Class == class {
			return x
		}
	}
	return nil
}

// ---- recorder

type Sample struct {
	Case    any    `json:"case"`
	Outcome string `json:"outcome"`
}

type Recorder struct {
	Prop        string
	Evaluations int
	Enumerated  int
	NonTrivial  map[uint64]struct{}
	Labels      map[string]int
	Skipped     map[string]int
	Excluded    int
	KnownHits   map[string]int
	Samples     []Sample
	seen        int
	Exhaustive  []string
	Incomplete  []string
}

func NewRecorder(prop string) *Recorder {
	return &Recorder{Prop: prop, NonTrivial: map[uint64]struct{}{}, Labels: map[string]int{}, Skipped: map[string]int{}, KnownHits: map[string]int{}}
}

func HashCase(c any) uint64 {
	b, _ := json.Marshal(c)
	h := fnv.New64a()
	h.Write(b)
	return h.Sum64()
}

// Observe records one evaluated case.
func (r *Recorder) Observe(c any, v *Verdict, enumerated bool) {
	r.Evaluations++
	if enumerated {
		r.Enumerated++
	}
	if v.Skipped != "" {
		r.Skipped[v.Skipped]++
	}
	r.Excluded += v.Excluded
	for _, l := range v.Labels {
		r.Labels[l]++
	}
	if v.NonTrivial && v.Skipped == "" {
		r.NonTrivial[HashCase(c)] = struct{}{}
	}
	// samples: the first 3, then a deterministic sparse sample (every 2^k-th)
	r.seen++
	if r.seen <= 3 || (r.seen&(r.seen-1)) == 0 {
		out := "ok"
		switch {
		case v.Violation != "":
			out = "violation: " + v.Violation
		case v.Skipped != "":
			out = "skipped: " + v.Skipped
		case v.NonTrivial:
			out = "ok (non-trivial)"
		}
		if len(r.Samples) < 24 {
			var shown any = c
			if d, ok := c.(interface{ Display() any }); ok {
				shown = d.Display()
			}
			r.Samples = append(r.Samples, Sample{Case: shown, Outcome: out})
		}
	}
}

type Report struct {
	Property    string         `json:"property"`
	Evaluations int            `json:"evaluations"`
	Enumerated  int            `json:"enumerated"`
	NonTrivialN int            `json:"nontrivial_in_shard"`
	Labels      map[string]int `json:"labels"`
	Skipped     map[string]int `json:"skipped"`
	Excluded    int            `json:"excluded_by_known_finding"`
	KnownHits   map[string]int `json:"known_finding_hits"`
	Samples     []Sample       `json:"samples"`
	Exhaustive  []string       `json:"exhaustive_subspaces"`
	Incomplete  []string       `json:"incomplete_subspaces"`
}

// Write stores the shard report and the hash set next to it.
func (r *Recorder) Write(dir string, shard int) error {
	if err := os.MkdirAll(dir, 0o755); err != nil {
		return err
	}
	rep := Report{Property: r.Prop, Evaluations: r.Evaluations, Enumerated: r.Enumerated, NonTrivialN: len(r.NonTrivial),
		Labels: r.Labels, Skipped: r.Skipped, Excluded: r.Excluded, KnownHits: r.KnownHits, Samples: r.Samples,
		Exhaustive: r.Exhaustive, Incomplete: r.Incomplete}
	b, err := json.Marshal(rep)
	if err != nil {
		return err
	}
	if err := os.WriteFile(filepath.Join(dir, fmt.Sprintf("report-%d.json", shard)), b, 0o644); err != nil {
		return err
	}
	hs := make([]uint64, 0, len(r.NonTrivial))
	for h := range r.NonTrivial {
		hs = append(hs, h)
	}
	sort.Slice(hs, func(i, j int) bool { return hs[i] < hs[j] })
	buf := make([]byte, 8*len(hs))
	for i, h := range hs {
		binary.LittleEndian.PutUint64(buf[8*i:], h)
	}
	return os.WriteFile(filepath.Join(dir, fmt.Sprintf("hashes-%d.bin", shard)), buf, 0o644)
}

// WriteReplay stores a failing case.
func WriteReplay(path, prop string, c any, v *Verdict) error {
	if err := os.MkdirAll(filepath.Dir(path), 0o755); err != nil {
		return err
	}
	b, err := json.MarshalIndent(map[string]any{"property": prop, "violation": v.Violation, "class": v.Class, "case": c}, "", " ")
	if err != nil {
		return err
	}
	return os.WriteFile(path, b, 0o644)
}

// ReadReplay loads the case of a replay / corpus file into the property's case type.
func ReadReplay(path string, p *Prop) (any, error) {
	b, err := os.ReadFile(path)
	if err != nil {
		return nil, err
	}
	var wrap struct {
		Case json.RawMessage `json:"case"`
	}
	if err := json.Unmarshal(b, &wrap); err != nil {
		return nil, err
	}
	c := p.New()
	if wrap.Case == nil {
		return nil, fmt.Errorf("%s: no case field", path)
	}
	if err := json.Unmarshal(wrap.Case, c); err != nil {
		return nil, err
	}
	return c, nil
}
