// Package syntax is the harness's reference recogniser / parser for Numscript: a
// recursive-descent parser with backtracking over the token list of the reference lexer,
// written from the parser rules of Numscript.g4. It decides membership in the
// context-free language exactly (the left-recursive valueExpr rule is rewritten as
// primary (op primary)*; an operator token can start nothing else, so the greedy loop is
// exact) and builds the harness's own tree. It shares no code with the repository.
package syntax

import (
	"verifharness/gen"
	"verifharness/lex"
)

type parser struct {
	toks []lex.Token
	pos  int
}

// span of the tokens [from, p.pos)
func (p *parser) span(from int) *gen.Span {
	if p.pos <= from || p.pos > len(p.toks) {
		return nil
	}
	a, b := p.toks[from], p.toks[p.pos-1]
	return &gen.Span{SL: a.Line, SC: a.Col, EL: b.Line, EC: b.Col + lex.RuneLen(b.Text)}
}

func (p *parser) peek() lex.Kind {
	if p.pos < len(p.toks) {
		return p.toks[p.pos].Kind
	}
	return lex.EOF
}

func (p *parser) accept(k lex.Kind) (lex.Token, bool) {
	if p.peek() == k {
		t := p.toks[p.pos]
		p.pos++
		return t, true
	}
	return lex.Token{}, false
}

func (p *parser) primary() (*gen.Expr, bool) {
	if p.pos >= len(p.toks) {
		return nil, false
	}
	t := p.toks[p.pos]
	from := p.pos
	switch t.Kind {
	case lex.VARNAME:
		p.pos++
		return &gen.Expr{Kind: gen.EVar, Text: t.Text[1:], Span: p.span(from)}, true
	case lex.ASSET:
		p.pos++
		return &gen.Expr{Kind: gen.EAsset, Text: t.Text, Span: p.span(from)}, true
	case lex.STRING:
		p.pos++
		return &gen.Expr{Kind: gen.EStr, Text: t.Text[1 : len(t.Text)-1], Span: p.span(from)}, true
	case lex.ACCOUNT:
		p.pos++
		return &gen.Expr{Kind: gen.EAcct, Text: t.Text[1:], Span: p.span(from)}, true
	case lex.NUMBER:
		p.pos++
		return &gen.Expr{Kind: gen.ENum, Text: t.Text, Span: p.span(from)}, true
	case lex.RATIO, lex.PERCENT:
		p.pos++
		return &gen.Expr{Kind: gen.EPortion, Text: t.Text, Span: p.span(from)}, true
	case lex.LBRACKET:
		save := p.pos
		p.pos++
		a, ok := p.valueExpr()
		if ok {
			n, ok2 := p.valueExpr()
			if ok2 {
				if _, ok3 := p.accept(lex.RBRACKET); ok3 {
					return &gen.Expr{Kind: gen.EMon, L: a, R: n, Span: p.span(from)}, true
				}
			}
		}
		p.pos = save
		return nil, false
	}
	return nil, false
}

func (p *parser) valueExpr() (*gen.Expr, bool) {
	from := p.pos
	l, ok := p.primary()
	if !ok {
		return nil, false
	}
	for {
		save := p.pos
		var op string
		if _, ok := p.accept(lex.PLUS); ok {
			op = "+"
		} else if _, ok := p.accept(lex.MINUS); ok {
			op = "-"
		} else {
			return l, true
		}
		r, ok := p.primary()
		if !ok {
			p.pos = save
			return l, true
		}
		l = &gen.Expr{Kind: gen.EInfix, Op: op, L: l, R: r, Span: p.span(from)}
	}
}

func (p *parser) call() (*gen.Call, bool) {
	save := p.pos
	var name lex.Token
	var ok bool
	if name, ok = p.accept(lex.IDENT); !ok {
		if name, ok = p.accept(lex.OVERDRAFT); !ok {
			return nil, false
		}
	}
	if _, ok := p.accept(lex.LPARENS); !ok {
		p.pos = save
		return nil, false
	}
	c := &gen.Call{Fn: name.Text}
	p.pos = save + 1
	c.NameSpan = p.span(save)
	p.pos = save + 2
	if a, ok := p.valueExpr(); ok {
		c.Args = append(c.Args, a)
		for {
			s2 := p.pos
			if _, ok := p.accept(lex.COMMA); !ok {
				break
			}
			a, ok := p.valueExpr()
			if !ok {
				p.pos = s2
				break
			}
			c.Args = append(c.Args, a)
		}
	}
	if _, ok := p.accept(lex.RPARENS); !ok {
		p.pos = save
		return nil, false
	}
	c.Span = p.span(save)
	return c, true
}

func (p *parser) allotment() (gen.Allot, bool) {
	from := p.pos
	if t, ok := p.accept(lex.RATIO); ok {
		return gen.Allot{Kind: gen.ALit, Text: t.Text, Span: p.span(from)}, true
	}
	if t, ok := p.accept(lex.PERCENT); ok {
		return gen.Allot{Kind: gen.ALit, Text: t.Text, Span: p.span(from)}, true
	}
	if t, ok := p.accept(lex.VARNAME); ok {
		return gen.Allot{Kind: gen.AVar, Text: t.Text[1:], Span: p.span(from)}, true
	}
	if _, ok := p.accept(lex.REMAINING); ok {
		return gen.Allot{Kind: gen.ARemaining, Span: p.span(from)}, true
	}
	return gen.Allot{}, false
}

func (p *parser) source() (*gen.Src, bool) {
	save := p.pos
	// valueExpr ALLOWING ... | valueExpr
	if e, ok := p.valueExpr(); ok {
		s2 := p.pos
		if _, ok := p.accept(lex.ALLOWING); ok {
			if _, ok := p.accept(lex.UNBOUNDED); ok {
				if _, ok := p.accept(lex.OVERDRAFT); ok {
					return &gen.Src{Kind: gen.SOver, Addr: e, Span: p.span(save)}, true
				}
			} else if _, ok := p.accept(lex.OVERDRAFT); ok {
				if _, ok := p.accept(lex.UP); ok {
					if _, ok := p.accept(lex.TO); ok {
						if b, ok := p.valueExpr(); ok {
							return &gen.Src{Kind: gen.SOver, Addr: e, Bound: b, Span: p.span(save)}, true
						}
					}
				}
			}
			p.pos = s2
		}
		return &gen.Src{Kind: gen.SAcct, Addr: e, Span: e.Span}, true
	}
	p.pos = save
	if _, ok := p.accept(lex.LBRACE); ok {
		// allotment: one or more `allotment FROM source`
		s := &gen.Src{Kind: gen.SAllot}
		for {
			s3 := p.pos
			a, ok := p.allotment()
			if !ok {
				break
			}
			if _, ok := p.accept(lex.FROM); !ok {
				p.pos = s3
				break
			}
			from, ok := p.source()
			if !ok {
				p.pos = s3
				break
			}
			s.Items = append(s.Items, gen.SrcItem{Portion: a, From: from, Span: p.span(s3)})
		}
		if len(s.Items) > 0 {
			if _, ok := p.accept(lex.RBRACE); ok {
				s.Span = p.span(save)
				return s, true
			}
		}
		// in-order: zero or more sources
		p.pos = save + 1
		in := &gen.Src{Kind: gen.SInorder}
		for {
			sub, ok := p.source()
			if !ok {
				break
			}
			in.Subs = append(in.Subs, sub)
		}
		if _, ok := p.accept(lex.RBRACE); ok {
			in.Span = p.span(save)
			return in, true
		}
		p.pos = save
		return nil, false
	}
	if _, ok := p.accept(lex.MAX); ok {
		if c, ok := p.valueExpr(); ok {
			if _, ok := p.accept(lex.FROM); ok {
				if from, ok := p.source(); ok {
					return &gen.Src{Kind: gen.SCapped, Cap: c, From: from, Span: p.span(save)}, true
				}
			}
		}
		p.pos = save
		return nil, false
	}
	return nil, false
}

func (p *parser) kod() (gen.KOD, bool) {
	save := p.pos
	if _, ok := p.accept(lex.KEPT); ok {
		return gen.KOD{Kept: true, Span: p.span(save)}, true
	}
	if _, ok := p.accept(lex.TO); ok {
		if d, ok := p.destination(); ok {
			return gen.KOD{Dst: d}, true
		}
	}
	p.pos = save
	return gen.KOD{}, false
}

func (p *parser) destination() (*gen.Dst, bool) {
	save := p.pos
	if e, ok := p.valueExpr(); ok {
		return &gen.Dst{Kind: gen.DAcct, Addr: e, Span: e.Span}, true
	}
	p.pos = save
	if _, ok := p.accept(lex.LBRACE); !ok {
		return nil, false
	}
	// allotment first (ANTLR resolves the `{ remaining X }` ambiguity to the first alternative)
	d := &gen.Dst{Kind: gen.DAllot}
	for {
		s3 := p.pos
		a, ok := p.allotment()
		if !ok {
			break
		}
		k, ok := p.kod()
		if !ok {
			p.pos = s3
			break
		}
		d.Items = append(d.Items, gen.DstItem{Portion: a, To: k, Span: p.span(s3)})
	}
	if len(d.Items) > 0 {
		if _, ok := p.accept(lex.RBRACE); ok {
			d.Span = p.span(save)
			return d, true
		}
	}
	p.pos = save + 1
	in := &gen.Dst{Kind: gen.DInorder}
	for {
		s3 := p.pos
		if _, ok := p.accept(lex.MAX); !ok {
			break
		}
		c, ok := p.valueExpr()
		if !ok {
			p.pos = s3
			break
		}
		k, ok := p.kod()
		if !ok {
			p.pos = s3
			break
		}
		in.Clauses = append(in.Clauses, gen.DstClause{Cap: c, To: k, Span: p.span(s3)})
	}
	if _, ok := p.accept(lex.REMAINING); ok {
		if k, ok := p.kod(); ok {
			if _, ok := p.accept(lex.RBRACE); ok {
				in.Remaining = &k
				in.Span = p.span(save)
				return in, true
			}
		}
	}
	p.pos = save
	return nil, false
}

func (p *parser) sent(st *gen.Stmt) bool {
	save := p.pos
	if e, ok := p.valueExpr(); ok {
		st.Sent = e
		st.SentSpan = p.span(save)
		return true
	}
	p.pos = save
	if _, ok := p.accept(lex.LBRACKET); ok {
		if e, ok := p.valueExpr(); ok {
			if _, ok := p.accept(lex.STAR); ok {
				if _, ok := p.accept(lex.RBRACKET); ok {
					st.All = true
					st.Sent = e
					st.SentSpan = p.span(save)
					return true
				}
			}
		}
	}
	p.pos = save
	return false
}

func (p *parser) statement() (*gen.Stmt, bool) {
	save := p.pos
	if _, ok := p.accept(lex.SEND); ok {
		st := &gen.Stmt{Kind: gen.StSend}
		if p.sent(st) {
			if _, ok := p.accept(lex.LPARENS); ok {
				if _, ok := p.accept(lex.SOURCE); ok {
					if _, ok := p.accept(lex.EQ); ok {
						if s, ok := p.source(); ok {
							st.Src = s
							if _, ok := p.accept(lex.DESTINATION); ok {
								if _, ok := p.accept(lex.EQ); ok {
									if d, ok := p.destination(); ok {
										st.Dst = d
										if _, ok := p.accept(lex.RPARENS); ok {
											st.Span = p.span(save)
											return st, true
										}
									}
								}
							}
						}
					}
				}
			}
		}
		p.pos = save
		return nil, false
	}
	if _, ok := p.accept(lex.SAVE); ok {
		st := &gen.Stmt{Kind: gen.StSave}
		if p.sent(st) {
			if _, ok := p.accept(lex.FROM); ok {
				if e, ok := p.valueExpr(); ok {
					st.SaveFrom = e
					st.Span = p.span(save)
					return st, true
				}
			}
		}
		p.pos = save
		return nil, false
	}
	if c, ok := p.call(); ok {
		return &gen.Stmt{Kind: gen.StCall, Call: c, Span: c.Span}, true
	}
	return nil, false
}

func (p *parser) program() (*gen.Script, bool) {
	s := &gen.Script{}
	if _, ok := p.accept(lex.VARS); ok {
		s.HasVars = true
		if _, ok := p.accept(lex.LBRACE); !ok {
			return nil, false
		}
		for {
			save := p.pos
			ty, ok := p.accept(lex.IDENT)
			if !ok {
				break
			}
			nm, ok := p.accept(lex.VARNAME)
			if !ok {
				p.pos = save
				break
			}
			d := gen.VarDecl{Type: ty.Text, Name: nm.Text[1:]}
			p.pos = save + 1
			d.TypeSpan = p.span(save)
			p.pos = save + 2
			d.NameSpan = p.span(save + 1)
			s2 := p.pos
			if _, ok := p.accept(lex.EQ); ok {
				c, ok := p.call()
				if !ok {
					p.pos = s2
					return nil, false
				}
				d.Origin = c
			}
			d.Span = p.span(save)
			s.Vars = append(s.Vars, d)
		}
		if _, ok := p.accept(lex.RBRACE); !ok {
			return nil, false
		}
	}
	for {
		st, ok := p.statement()
		if !ok {
			break
		}
		s.Stmts = append(s.Stmts, st)
	}
	if p.pos != len(p.toks) {
		return nil, false
	}
	return s, true
}

// Verdict of the reference recogniser on a text.
type Verdict struct {
	Valid     bool // lexes without error and derives from `program`
	Uncertain bool // the lexer emulation abstains (see lex.Result.Uncertain)
	Script    *gen.Script
	Tokens    []lex.Token
	LexErrors int
}

func Parse(text string) Verdict {
	r := lex.Lex(text)
	v := Verdict{Uncertain: r.Uncertain, Tokens: r.Tokens, LexErrors: len(r.Errors)}
	if len(r.Errors) != 0 {
		return v
	}
	p := &parser{toks: r.Tokens}
	s, ok := p.program()
	v.Valid = ok
	v.Script = s
	return v
}
