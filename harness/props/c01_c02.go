package props

import (
	"fmt"
	"math/big"

	"pgregory.net/rapid"

	"verifharness/doubles"
	"verifharness/ev"
	"verifharness/gen"
	"verifharness/hx"
	"verifharness/model"
)

func init() {
	ev.Register(&ev.Prop{
		ID:          "C01",
		Rule:        "typed generator (1-6 statements: fixed sends, send-all, save, metadata calls; source trees with repeated and aliased accounts, bounded/unbounded overdraft, caps, allotments; balances absent/0/small/negative/>2^64); oracle: replay of the returned postings on the starting sheet, every non-exempt (account, asset) must stay >= min(start, -max(0, largest bounded grant)); non-trivial = success with >=1 posting debiting a non-exempt account and a stress feature (account repeated in a source, negative start, save, >=2 sends)",
		New:         newExecCase,
		Check:       checkC01,
		Assumptions: []string{"the printed script is what the parser reads (C15)", "store answers with its whole content (C10 compares store behaviours)"},
	})
	Generators["C01"] = func(t *rapid.T, tier string) any {
		k := gen.DefaultKnobs()
		k.MaxStmts = 5
		k.PSave = 15
		k.PNegBal = 18
		k.PBounded = 22
		k.PBalanceOrigin = 20
		k.PReuse = 35
		k.OverdraftFlag = gen.Chance(t, "odflag", 30)
		if tier == "thorough" {
			k.MaxDepth = 4
			k.MaxStmts = 6
		}
		if gen.Chance(t, "dense", 30) {
			// dense mode: two accounts x two assets, many negative balances, bounded overdrafts
			// and balance() variables, so that the same account is asked for several assets at
			// different moments
			k.Accounts = []string{"a", "b"}
			k.Assets = []string{"USD", "EUR"}
			k.EvenAssets = true
			k.PBalanceOrigin = 70
			k.PNegBal = 40
			k.PBounded = 40
			k.MaxDepth = 2
			k.MinStmts = 2
		} else if gen.Chance(t, "huge", 12) {
			// huge mode: two accounts, one asset, most balances, amounts, caps and overdraft
			// bounds around 2^63 / 2^64 / 2^70 (sums of several pulls from one account crossing a
			// word boundary), the same account named many times
			k.Accounts = []string{"a", "b"}
			k.Assets = []string{"USD"}
			k.PBig = 55
			k.PRich = 0
			k.PSendAll = 40
			k.PBounded = 30
			k.PSave = 5
			k.PCall = 0
			k.PAllotSrc = 5
			k.MaxWidth = 5
		}
		return gen.NewTG(t, k).Case()
	}
	ev.Register(&ev.Prop{
		ID:          "C02",
		Rule:        "typed generator as C01 plus negative/zero caps on both sides, kept in every position, zero shares, multi-asset scripts; oracle per posting of a successful run: amount > 0, asset = asset of the producing statement (statements separated by prefix runs), source and destination non-empty, not the kept marker, and among the names the script can denote; non-trivial = success with >=1 posting and a stress feature (negative balance or cap, kept, allotment, >=2 assets)",
		New:         newExecCase,
		Check:       checkC02,
		Assumptions: []string{"the printed script is what the parser reads (C15)"},
	})
	Generators["C02"] = func(t *rapid.T, tier string) any {
		k := gen.DefaultKnobs()
		k.PKept = 20
		k.PNegCap = 20
		k.PNegBal = 18
		k.POverUnity = 6
		k.PWeirdAccount = 3
		if tier == "thorough" {
			k.MaxDepth = 4
		}
		ec := gen.NewTG(t, k).Case()
		// a negative amount to send (small, or beyond the machine word) through a variable:
		// the execution has to be refused, never to yield a negative posting
		if gen.Chance(t, "c02.negsent", 6) {
			for _, st := range ec.Script.Stmts {
				if st.Kind == gen.StSend && !st.All && st.Sent.Kind == gen.EMon && st.Sent.L.Kind == gen.EAsset {
					ec.Script.Vars = append(ec.Script.Vars, gen.VarDecl{Type: "monetary", Name: "negamt"})
					ec.Vars["negamt"] = st.Sent.L.Text + " " + gen.Pick(t, "c02.negsent.v", []string{"-1", "-9223372036854775808", "-9223372036854775809", "-18446744073709551616", "-18446744073709551617"})
					st.Sent = gen.Var("negamt")
					break
				}
			}
		}
		return ec
	}
}

func checkC01(c any) *ev.Verdict {
	ec := c.(*gen.ExecCase)
	v := &ev.Verdict{}
	scriptLabels(ec, v)
	r, _ := hx.Run(ec, doubles.Superset)
	outcomeLabel(r, v)
	if !r.OK() {
		return v
	}
	in := hx.ModelInputs(ec)
	sa := model.Analyse(ec.Script, in)
	if sa.VarErr != nil {
		v.Skipped = "model cannot evaluate the variable block"
		return v
	}
	run := in.Balances.Clone()
	debitedNonExempt := false
	for i, p := range r.Postings {
		run.Add(p.Src, p.Asset, new(big.Int).Neg(p.Amt))
		run.Add(p.Dst, p.Asset, p.Amt)
		for _, acct := range []string{p.Src, p.Dst} {
			if sa.Unbounded[acct] {
				continue
			}
			if acct == p.Src {
				debitedNonExempt = true
			}
			start := in.Balances.Get(acct, p.Asset)
			floor := new(big.Int)
			if g, ok := sa.Grants[[2]string{acct, p.Asset}]; ok && g.Sign() > 0 {
				floor.Neg(g)
			}
			if start.Cmp(floor) < 0 {
				floor = start
			}
			if cur := run.Get(acct, p.Asset); cur.Cmp(floor) < 0 {
				class := "overdraw"
				return v.Failf(class, "after posting %d (%s) account %s holds %s %s, below its floor %s (start %s); result: %s", i, p, acct, cur, p.Asset, floor, start, r.Summary())
			}
		}
	}
	stress := anyNegativeBalance(ec) || hasFeature(ec, "save") || countSends(ec) >= 2 || repeatedSourceAccount(ec, sa)
	v.NonTrivial = len(r.Postings) > 0 && debitedNonExempt && stress
	return v
}

// repeatedSourceAccount: some statement names one account at least twice in its source.
func repeatedSourceAccount(ec *gen.ExecCase, sa model.Static) bool {
	for _, st := range ec.Script.Stmts {
		if st.Src == nil {
			continue
		}
		seen := map[string]int{}
		var walk func(x *gen.Src)
		walk = func(x *gen.Src) {
			if x == nil {
				return
			}
			if x.Addr != nil {
				name := ""
				switch x.Addr.Kind {
				case gen.EAcct:
					name = x.Addr.Text
				case gen.EVar:
					if val, ok := sa.Env[x.Addr.Text]; ok {
						name = val.S
					}
				}
				seen[name]++
			}
			for _, c := range x.Subs {
				walk(c)
			}
			for _, it := range x.Items {
				walk(it.From)
			}
			walk(x.From)
		}
		walk(st.Src)
		for _, n := range seen {
			if n > 1 {
				return true
			}
		}
	}
	return false
}

func checkC02(c any) *ev.Verdict {
	ec := c.(*gen.ExecCase)
	v := &ev.Verdict{}
	scriptLabels(ec, v)
	r, _ := hx.Run(ec, doubles.Superset)
	outcomeLabel(r, v)
	if !r.OK() {
		return v
	}
	// clauses that need no model first: sign, empty name, kept marker
	for i, p := range r.Postings {
		if p.Amt.Sign() <= 0 {
			return v.Failf("nonpositive", "posting %d (%s) has a non-positive amount; result: %s", i, p, r.Summary())
		}
		for _, name := range []string{p.Src, p.Dst} {
			if name == "" || name == "<kept>" {
				return v.Failf("badname", "posting %d (%s) names %q", i, p, name)
			}
		}
	}
	in := hx.ModelInputs(ec)
	sa := model.Analyse(ec.Script, in)
	if sa.VarErr != nil {
		v.Skipped = "model cannot evaluate the variable block"
		return v
	}
	for i, p := range r.Postings {
		if p.Amt.Sign() <= 0 {
			class := "nonpositive"
			return v.Failf(class, "posting %d (%s) has a non-positive amount; result: %s", i, p, r.Summary())
		}
		for _, name := range []string{p.Src, p.Dst} {
			if name == "" || name == "<kept>" {
				return v.Failf("badname", "posting %d (%s) names %q", i, p, name)
			}
			if !sa.Names[name] {
				return v.Failf("badname", "posting %d (%s) names %q, which the script cannot denote", i, p, name)
			}
		}
	}
	// asset of the producing statement
	assets := map[string]bool{}
	for i, st := range ec.Script.Stmts {
		if st.Kind == gen.StSend {
			assets[sa.Assets[i]] = true
		}
	}
	if len(assets) <= 1 {
		for i, p := range r.Postings {
			if !assets[p.Asset] {
				return v.Failf("asset", "posting %d (%s) carries an asset no send statement uses", i, p)
			}
		}
	} else {
		groups, ok := hx.Group(ec, r, doubles.Superset)
		if !ok {
			v.Label("ungroupable")
		} else {
			for si, g := range groups {
				for _, p := range g {
					if p.Asset != sa.Assets[si] {
						return v.Failf("asset", "statement %d sends %s but its posting %s carries %s", si, sa.Assets[si], p, p.Asset)
					}
				}
				if ec.Script.Stmts[si].Kind != gen.StSend && len(g) != 0 {
					return v.Failf("asset", "statement %d (%s) produced postings %v", si, ec.Script.Stmts[si].Kind, fmt.Sprint(g))
				}
			}
		}
	}
	stress := anyNegativeBalance(ec) || hasFeature(ec, "dst.kept", "src.allot", "dst.allot") || len(assets) >= 2 || hasNegativeCap(ec)
	v.NonTrivial = len(r.Postings) > 0 && stress
	return v
}

func hasNegativeCap(ec *gen.ExecCase) bool {
	neg := false
	ec.Script.WalkExprs(func(e *gen.Expr) {
		if e.Kind == gen.ENum && len(e.Text) > 0 && e.Text[0] == '-' {
			neg = true
		}
	})
	for _, val := range ec.Vars {
		if len(val) > 0 && (val[0] == '-' || containsSpaceMinus(val)) {
			neg = true
		}
	}
	return neg
}

func containsSpaceMinus(s string) bool {
	for i := 0; i+1 < len(s); i++ {
		if s[i] == ' ' && s[i+1] == '-' {
			return true
		}
	}
	return false
}
