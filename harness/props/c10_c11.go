package props

import (
	"context"
	"encoding/json"
	"fmt"
	"math/big"
	"os"
	"path/filepath"
	"sort"
	"strings"
	"sync"

	"pgregory.net/rapid"

	"github.com/formancehq/numscript"

	"verifharness/doubles"
	"verifharness/ev"
	"verifharness/gen"
	"verifharness/hx"
	"verifharness/model"
)

// ---------------------------------------------------------------- C10

func init() {
	ev.Register(&ev.Prop{
		ID:          "C10",
		Rule:        "typed generator including balance()/overdraft()/meta() variable origins (separate early store requests), saves, sources through variables, destination-only accounts; the content gives a balance to most accounts mentioned, to @world and to unrelated accounts; oracle (differential): result (postings, metadata, or error class) identical under the stores {exact, sparse, sparse answering with nil maps, superset, static}; monitors: no request ever names world; non-trivial = the exact-store run issued >= 2 store requests, or a balance-limited account paid",
		New:         newExecCase,
		Check:       checkC10,
		Assumptions: []string{"the panic of a store answering nil for a metadata request is C12's business: cases that panic are skipped here"},
	})
	Generators["C10"] = func(t *rapid.T, tier string) any {
		if gen.Chance(t, "wide", 8) {
			return wideCase(t)
		}
		k := gen.DefaultKnobs()
		k.PBalanceOrigin = 55
		k.PWorldOddPlaces = 12
		k.OverdraftFlag = gen.Chance(t, "odflag", 50)
		k.POrigin = 25
		k.PSave = 12
		k.PRich = 25
		k.PWorldFallback = 25
		if tier == "thorough" {
			k.MaxDepth = 4
		}
		g := gen.NewTG(t, k)
		ec := g.Case()
		// content for @world and unrelated accounts
		ec.Balances["world"] = map[string]string{"USD": "77", "EUR": "-5"}
		ec.Balances["unrelated"] = map[string]string{"USD": "1000", "COIN/2": "3"}
		for _, d := range k.DestOnly {
			if gen.Chance(t, "destbal", 50) {
				ec.Balances[d] = map[string]string{"USD": fmt.Sprint(1 + gen.Uniform(t, "destbalv", 30))}
			}
		}
		// account and asset names whose concatenations coincide ("acc"+"ABC" = "accA"+"BC")
		if gen.Chance(t, "c10.colliding", 12) {
			ec.Rename(gen.CollidingNames(0))
		}
		return ec
	}
}

// wideQueryCase: one request for many accounts (stores may page or split large requests).
func wideQueryCase(t *rapid.T) *gen.ExecCase {
	n := 9 + gen.Uniform(t, "wide.n", 40)
	ec := &gen.ExecCase{Script: &gen.Script{}, Vars: map[string]string{}, Balances: map[string]map[string]string{}}
	src := &gen.Src{Kind: gen.SInorder}
	total := 0
	for i := 0; i < n; i++ {
		name := fmt.Sprintf("acc%02d", i)
		b := 1 + gen.Uniform(t, "wide.bal", 9)
		total += b
		ec.Balances[name] = map[string]string{"USD": fmt.Sprint(b)}
		src.Subs = append(src.Subs, &gen.Src{Kind: gen.SAcct, Addr: gen.Acct(name)})
	}
	ec.Balances["world"] = map[string]string{"USD": "5"}
	sent := gen.Mon(gen.Asset("USD"), gen.NumI(int64(total-gen.Uniform(t, "wide.less", 3))))
	st := &gen.Stmt{Kind: gen.StSend, Sent: sent, Src: src, Dst: &gen.Dst{Kind: gen.DAcct, Addr: gen.Acct("dest")}}
	if gen.Chance(t, "wide.all", 30) {
		st.All, st.Sent = true, gen.Asset("USD")
	}
	ec.Script.Stmts = []*gen.Stmt{st}
	return ec
}

// wideSplitCase: many balance-limited accounts spread over two to five sends (every
// statement names few of them, the script as a whole many): what is fetched for the whole
// script is more than what any part of it needs.
func wideSplitCase(t *rapid.T) *gen.ExecCase {
	n := 9 + gen.Uniform(t, "wides.n", 32)
	k := 2 + gen.Uniform(t, "wides.k", 4)
	ec := &gen.ExecCase{Script: &gen.Script{}, Vars: map[string]string{}, Balances: map[string]map[string]string{}}
	srcs := make([]*gen.Src, k)
	totals := make([]int, k)
	for i := range srcs {
		srcs[i] = &gen.Src{Kind: gen.SInorder}
	}
	for i := 0; i < n; i++ {
		name := fmt.Sprintf("acc%02d", i)
		b := 1 + gen.Uniform(t, "wides.bal", 9)
		ec.Balances[name] = map[string]string{"USD": fmt.Sprint(b)}
		j := i % k
		if i >= k {
			j = gen.Uniform(t, "wides.stmt", k)
		}
		totals[j] += b
		srcs[j].Subs = append(srcs[j].Subs, &gen.Src{Kind: gen.SAcct, Addr: gen.Acct(name)})
	}
	for j := range srcs {
		// the last statement always has a fallback, so that a wrong balance shows as another
		// posting list rather than only as a failure
		src := srcs[j]
		if gen.Chance(t, "wides.world", 50) {
			src = &gen.Src{Kind: gen.SInorder, Subs: append(append([]*gen.Src{}, srcs[j].Subs...), &gen.Src{Kind: gen.SAcct, Addr: gen.Acct("world")})}
		}
		st := &gen.Stmt{Kind: gen.StSend, Sent: gen.Mon(gen.Asset("USD"), gen.NumI(int64(totals[j]))), Src: src, Dst: &gen.Dst{Kind: gen.DAcct, Addr: gen.Acct("dest")}}
		ec.Script.Stmts = append(ec.Script.Stmts, st)
	}
	return ec
}

// wideCase: one of the two wide shapes.
func wideCase(t *rapid.T) *gen.ExecCase {
	if gen.Chance(t, "wide.split", 50) {
		return wideSplitCase(t)
	}
	return wideQueryCase(t)
}

func staticStore(ec *gen.ExecCase) numscript.StaticStore {
	c := hx.Content(ec)
	b := numscript.Balances{}
	for a, m := range c.Balances {
		b[a] = numscript.AccountBalance{}
		for k, v := range m {
			b[a][k] = new(big.Int).Set(v)
		}
	}
	m := numscript.AccountsMetadata{}
	for a, mm := range c.Meta {
		m[a] = numscript.AccountMetadata{}
		for k, v := range mm {
			m[a][k] = v
		}
	}
	return numscript.StaticStore{Balances: b, Meta: m}
}

func fullSummary(r hx.Real) string {
	if !r.OK() {
		if r.Panic != "" || r.ParseErrors > 0 {
			return r.Summary()
		}
		return "ERROR " + r.ErrClass
	}
	tx := []string{}
	for _, k := range gen.SortedKeys(r.TxMeta) {
		tx = append(tx, k+"="+r.TxMeta[k])
	}
	return r.Summary() + " tx{" + strings.Join(tx, ",") + "} am{" + acctMetaString(r.AcctMeta) + "}"
}

func checkC10(c any) *ev.Verdict {
	ec := c.(*gen.ExecCase)
	v := &ev.Verdict{}
	scriptLabels(ec, v)
	text := gen.PrintCanonical(ec.Script)
	results := map[string]hx.Real{}
	stores := map[string]*doubles.Store{}
	for _, mode := range []string{doubles.Exact, doubles.Sparse, doubles.NilMaps, doubles.Superset} {
		st := doubles.New(mode, hx.Content(ec))
		results[mode] = hx.RunText(text, ec.Vars, st, ec.Flags)
		stores[mode] = st
	}
	results["static"] = hx.RunText(text, ec.Vars, staticStore(ec), ec.Flags)
	ref := results[doubles.Exact]
	outcomeLabel(ref, v)
	for _, mode := range []string{doubles.Exact, doubles.Sparse, doubles.NilMaps, doubles.Superset, "static"} {
		if results[mode].Panic != "" || results[mode].ParseErrors > 0 {
			v.Skipped = "panic or parse error (C12/C14 own these)"
			return v
		}
	}
	for _, mode := range []string{doubles.Exact, doubles.Sparse, doubles.NilMaps, doubles.Superset} {
		for _, call := range stores[mode].Calls {
			if _, ok := call.Query["world"]; ok && call.Kind == "balances" {
				return v.Failf("world-requested", "store mode %s: the balance of @world was requested (%v)", mode, call.Query)
			}
		}
	}
	for _, mode := range []string{doubles.Sparse, doubles.NilMaps, doubles.Superset, "static"} {
		if fullSummary(results[mode]) != fullSummary(ref) {
			class := "store-dependence"
			return v.Failf(class, "result under the exact store: %s\nresult under the %s store: %s\nrequests (exact run): %v", fullSummary(ref), mode, fullSummary(results[mode]), stores[doubles.Exact].Calls)
		}
	}
	// every balance that can influence the result must have been requested beforehand:
	// the pairs the reference execution consults while funds are still needed
	m := model.Run(ec.Script, hx.ModelInputs(ec))
	if m.Err == nil || m.Err.Stmt >= 0 {
		req := map[[2]string]bool{}
		for _, pr := range stores[doubles.Exact].Requested() {
			req[pr] = true
		}
		var missing []string
		for pr := range m.Reads {
			if !req[pr] && pr[0] != "world" {
				missing = append(missing, pr[0]+"/"+pr[1])
			}
		}
		sort.Strings(missing)
		if len(missing) > 0 {
			return v.Failf("not-requested", "the execution depends on the balance of %v, which was never requested from the store; requests: %v; result %s", missing, stores[doubles.Exact].Calls, fullSummary(ref))
		}
	}
	limited := false
	for _, p := range ref.Postings {
		if p.Src != "world" {
			limited = true
		}
	}
	v.NonTrivial = len(stores[doubles.Exact].Calls) >= 2 || limited
	v.Label(fmt.Sprintf("store-calls:%d", min(len(stores[doubles.Exact].Calls), 4)))
	return v
}

// ---------------------------------------------------------------- C11

func init() {
	ev.Register(&ev.Prop{
		ID:          "C11",
		Rule:        "typed generator (all features, metadata, balance()/overdraft()/meta() origins); stores = one that hands out its own internal maps and the bundled StaticStore; oracle: (a) R sequential runs on one ParseResult, one variables map and one store give identical results; (b) deep copies of the variables map and of the store's balance and metadata maps taken before equal the maps after; (c) G goroutines running the same ParseResult with the same maps concurrently all return the sequential result, in a binary built with -race (any race report is a violation); (d) a script without overdraft() gives the same result under every flag set, with it exactly the experimental-feature error without the flag; non-trivial = success with >= 1 posting touching an account present in the store's maps",
		New:         newExecCase,
		Check:       checkC11,
		Assumptions: []string{"the race detector reports unsynchronised conflicting accesses that occur in a run, whatever their timing; execution takes no locks, so a shared write on an executed path is reported"},
	})
	Generators["C11"] = func(t *rapid.T, tier string) any {
		if gen.Chance(t, "c11.wide", 6) {
			return wideCase(t)
		}
		k := gen.DefaultKnobs()
		k.PBalanceOrigin = 35
		k.PWorldOddPlaces = 8
		k.OverdraftFlag = gen.Chance(t, "odflag", 40)
		k.PRich = 30
		k.PWorldFallback = 30
		k.PCall = 15
		k.PWarm = 60
		ec := gen.NewTG(t, k).Case()
		// entries the script does not ask for: another spelling of a declared name, unknown
		// names, the empty name (the map belongs to the caller and must come back unchanged)
		if gen.Chance(t, "c11.extrakeys", 20) {
			for _, d := range ec.Script.Vars {
				if val, ok := ec.Vars[d.Name]; ok && gen.Chance(t, "c11.extrakey", 50) {
					ec.Vars[gen.Pick(t, "c11.extrakey.form", []string{"$", " ", "vars."})+d.Name] = val
				}
			}
			ec.Vars[gen.Pick(t, "c11.extrakey.other", []string{"unused", "", "$", "$unused"})] = "x"
		}
		// determinism covers failures too: sometimes one variable carries an ill-formed or
		// out-of-range text (the same outcome must come back every time)
		if gen.Chance(t, "c11.badvar", 25) {
			var plain []string
			for _, d := range ec.Script.Vars {
				if d.Origin == nil {
					plain = append(plain, d.Name)
				}
			}
			if len(plain) > 0 {
				ec.Vars[gen.Pick(t, "c11.badvar.name", plain)] = gen.Pick(t, "c11.badvar.text", varTexts)
				// several ill-formed values at once: which one is reported must not depend on
				// the iteration order of the variables map
				for n := gen.Uniform(t, "c11.badvar.more", 3); n > 0 && len(plain) > 1; n-- {
					ec.Vars[gen.Pick(t, "c11.badvar.name2", plain)] = gen.Pick(t, "c11.badvar.text2", varTexts)
				}
			}
		}
		if !k.OverdraftFlag && gen.Chance(t, "unknownflag", 30) {
			ec.Flags = []string{"some-unknown-flag"}
		}
		return ec
	}
}

// variantVars rebinds the account variables of the case (to world and to other accounts).
func variantVars(ec *gen.ExecCase) map[string]string {
	if ec.Warm != nil {
		// the generator's own second assignment: values of every type changed
		return ec.Warm
	}
	alt := map[string]string{}
	changed := false
	i := 0
	for _, d := range ec.Script.Vars {
		val, ok := ec.Vars[d.Name]
		if !ok {
			continue
		}
		if d.Type == "account" && d.Origin == nil {
			choices := []string{"world", "b", "a", "zz"}
			nv := choices[i%len(choices)]
			i++
			if nv != val {
				changed = true
			}
			alt[d.Name] = nv
			continue
		}
		alt[d.Name] = val
	}
	if !changed {
		return nil
	}
	return alt
}

func snapshotStatic(s numscript.StaticStore) string {
	b := map[string]map[string]string{}
	for a, m := range s.Balances {
		b[a] = map[string]string{}
		for k, v := range m {
			b[a][k] = v.String()
		}
	}
	j, _ := json.Marshal(map[string]any{"b": b, "m": s.Meta})
	return string(j)
}

func snapshotShared(s *doubles.Store) string {
	b, m := s.SharedSnapshot()
	j, _ := json.Marshal(map[string]any{"b": b, "m": m})
	return string(j)
}

func inflight(c any) {
	dir := os.Getenv("VERIF_OUT")
	if dir == "" {
		return
	}
	sh := os.Getenv("VERIF_FILE_SHARD")
	if sh == "" {
		sh = "0"
	}
	ev.WriteReplay(filepath.Join(dir, "inflight-"+sh+".json"), os.Getenv("VERIF_PROP"), c, &ev.Verdict{Violation: "process died while executing this case"})
}

// exactSummary is fullSummary plus the message of the error: "the same result" includes which
// error is reported (C11 only; across stores, C10 compares classes).
func exactSummary(r hx.Real) string {
	s := fullSummary(r)
	if !r.OK() && r.Panic == "" && r.ParseErrors == 0 {
		s += " (" + r.ErrMsg + ")"
	}
	return s
}

func checkC11(c any) *ev.Verdict {
	ec := c.(*gen.ExecCase)
	v := &ev.Verdict{}
	scriptLabels(ec, v)
	inflight(ec)
	text := gen.PrintCanonical(ec.Script)
	pr := numscript.Parse(text)
	if len(pr.GetParsingErrors()) != 0 {
		v.Skipped = "parse error (C14 owns this)"
		return v
	}
	R, G := 4, 8
	if os.Getenv("VERIF_TIER") == "thorough" {
		R, G = 8, 16
	}
	type storeKind struct {
		name string
		mk   func() (numscript.Store, func() string)
	}
	kinds := []storeKind{
		{"shared", func() (numscript.Store, func() string) {
			s := doubles.New(doubles.Shared, hx.Content(ec))
			return s, func() string { return snapshotShared(s) }
		}},
		{"static", func() (numscript.Store, func() string) {
			s := staticStore(ec)
			return s, func() string { return snapshotStatic(s) }
		}},
		// a store that builds a new map for every query (like one backed by a database): every
		// answer it ever returned must keep the content it had when it was returned
		{"exact", func() (numscript.Store, func() string) {
			s := doubles.New(doubles.Exact, hx.Content(ec))
			return s, func() string {
				if msg, ok := s.HandedOutIntact(); !ok {
					return msg
				}
				return ""
			}
		}},
	}
	flags := hx.FlagSet(ec.Flags)
	runOnce := func(vars map[string]string, store numscript.Store, fl map[string]struct{}) (out hx.Real) {
		defer func() {
			if r := recover(); r != nil {
				out.Panic = fmt.Sprint(r)
			}
		}()
		res, err := pr.RunWithFeatureFlags(context.Background(), vars, store, fl)
		return hx.Normalise(res, err)
	}
	// (e) isolation between different scripts: the same script without one of its plain
	// declarations (its uses stay) is run before and after the runs of the full script; what it
	// gives must not depend on what another script bound in between
	var pr2 *numscript.ParseResult
	var text2 string
	for i, d := range ec.Script.Vars {
		if d.Origin == nil {
			s2 := ec.Script.Clone()
			s2.Vars = append(append([]gen.VarDecl{}, s2.Vars[:i]...), s2.Vars[i+1:]...)
			text2 = gen.PrintCanonical(s2)
			p2 := numscript.Parse(text2)
			if len(p2.GetParsingErrors()) == 0 {
				pr2 = &p2
			}
			break
		}
	}
	runOther := func() (out hx.Real) {
		defer func() {
			if r := recover(); r != nil {
				out.Panic = fmt.Sprint(r)
			}
		}()
		// its own, plain values: nothing the case's runs are about to see for the first time
		vars := map[string]string{}
		for _, d := range ec.Script.Vars {
			if _, ok := ec.Vars[d.Name]; !ok {
				continue
			}
			switch d.Type {
			case "number":
				vars[d.Name] = "5"
			case "monetary":
				vars[d.Name] = "USD 5"
			case "portion":
				vars[d.Name] = "1/2"
			case "account":
				vars[d.Name] = "a"
			case "asset":
				vars[d.Name] = "USD"
			default:
				vars[d.Name] = "s"
			}
		}
		res, err := pr2.RunWithFeatureFlags(context.Background(), vars, staticStore(ec), flags)
		return hx.Normalise(res, err)
	}
	var otherBefore hx.Real
	if pr2 != nil {
		otherBefore = runOther()
	}
	var first hx.Real
	for ki, kind := range kinds {
		store, snap := kind.mk()
		vars := map[string]string{}
		for k, x := range ec.Vars {
			vars[k] = x
		}
		before := snap()
		varsBefore, _ := json.Marshal(vars)
		// (a) repetition
		var ref hx.Real
		for i := 0; i < R; i++ {
			r := runOnce(vars, store, flags)
			if r.Panic != "" {
				v.Skipped = "panic (C12 owns this)"
				return v
			}
			if i == 0 {
				ref = r
				continue
			}
			if exactSummary(r) != exactSummary(ref) {
				return v.Failf("not-repeatable", "%s store: run 1 gives %s, run %d gives %s", kind.name, exactSummary(ref), i+1, exactSummary(r))
			}
		}
		// (b) inputs untouched
		if after := snap(); after != before {
			return v.Failf("store-mutated", "%s store: the maps handed out by the store were modified by execution\nbefore: %s\nafter:  %s", kind.name, before, after)
		}
		if va, _ := json.Marshal(vars); string(va) != string(varsBefore) {
			return v.Failf("vars-mutated", "the variables map was modified: before %s after %s", varsBefore, va)
		}
		// (c) concurrency on the same ParseResult, maps and store
		results := make([]hx.Real, G)
		var wg sync.WaitGroup
		for g := 0; g < G; g++ {
			wg.Add(1)
			go func(g int) {
				defer wg.Done()
				results[g] = runOnce(vars, store, flags)
			}(g)
		}
		wg.Wait()
		for g := range results {
			if exactSummary(results[g]) != exactSummary(ref) {
				return v.Failf("concurrent-differs", "%s store: goroutine %d returned %s, sequential run %s", kind.name, g, exactSummary(results[g]), exactSummary(ref))
			}
		}
		if after := snap(); after != before {
			return v.Failf("store-mutated", "%s store: maps modified by concurrent execution", kind.name)
		}
		if ki == 0 {
			first = ref
		} else if fullSummary(first) != fullSummary(ref) {
			return v.Failf("store-dependence", "shared-map store gives %s, %s store gives %s", fullSummary(first), kind.name, fullSummary(ref))
		}
	}
	outcomeLabel(first, v)
	if pr2 != nil {
		otherAfter := runOther()
		if otherBefore.Panic == "" && otherAfter.Panic == "" && exactSummary(otherBefore) != exactSummary(otherAfter) {
			return v.Failf("cross-script-state", "the script %q (one declaration of the case's script removed) gave %s before the case's script was run and gives %s afterwards", text2, exactSummary(otherBefore), exactSummary(otherAfter))
		}
		v.Label("other-script")
	}
	// (a') re-entrancy across different inputs: a run with other variable values on the same
	// parsed script must give what a fresh parse gives, and must not change what the original
	// variables give afterwards
	if alt := variantVars(ec); alt != nil {
		store, _ := kinds[1].mk()
		altOnShared := runOnce(alt, store, flags)
		freshPR := numscript.Parse(text)
		store2, _ := kinds[1].mk()
		altFresh := func() (out hx.Real) {
			defer func() {
				if r := recover(); r != nil {
					out.Panic = fmt.Sprint(r)
				}
			}()
			res, err := freshPR.RunWithFeatureFlags(context.Background(), alt, store2, flags)
			return hx.Normalise(res, err)
		}()
		if altOnShared.Panic == "" && altFresh.Panic == "" && fullSummary(altOnShared) != fullSummary(altFresh) {
			return v.Failf("parse-result-state", "with the variables %v the parsed script that already ran gives %s, a fresh parse of the same text gives %s", alt, fullSummary(altOnShared), fullSummary(altFresh))
		}
		store3, _ := kinds[1].mk()
		again := runOnce(ec.Vars, store3, flags)
		if again.Panic == "" && fullSummary(again) != fullSummary(first) {
			return v.Failf("parse-result-state", "after a run with the variables %v, the original variables give %s instead of %s", alt, fullSummary(again), fullSummary(first))
		}
		// and both variable sets concurrently on the same parsed script (race detector)
		var wg sync.WaitGroup
		for g := 0; g < 4; g++ {
			wg.Add(1)
			go func(g int) {
				defer wg.Done()
				st, _ := kinds[1].mk()
				if g%2 == 0 {
					runOnce(alt, st, flags)
				} else {
					runOnce(ec.Vars, st, flags)
				}
			}(g)
		}
		wg.Wait()
		v.Label("variant-vars")
	}
	// (d) flags
	usesOverdraft := false
	for _, d := range ec.Script.Vars {
		if d.Origin != nil && d.Origin.Fn == "overdraft" {
			usesOverdraft = true
		}
	}
	flagSets := []map[string]struct{}{nil, {}, {"experimental-overdraft-function": {}}, {"some-unknown-flag": {}}, {"experimental-overdraft-function": {}, "x": {}}}
	var withFlag, withoutFlag []string
	for _, fs := range flagSets {
		store, _ := kinds[1].mk()
		r := runOnce(ec.Vars, store, fs)
		if _, on := fs["experimental-overdraft-function"]; on {
			withFlag = append(withFlag, fullSummary(r))
		} else {
			withoutFlag = append(withoutFlag, fullSummary(r))
		}
	}
	all := append(append([]string{}, withFlag...), withoutFlag...)
	if !usesOverdraft {
		for _, s := range all {
			if s != all[0] {
				return v.Failf("flag-leak", "the script does not use overdraft() but its result depends on the feature flags: %s vs %s", all[0], s)
			}
		}
	} else {
		v.Label("uses-overdraft-fn")
		for _, s := range withoutFlag {
			// an earlier variable may fail before overdraft() is reached: then both agree
			if s != "ERROR ExperimentalFeature" && !(strings.HasPrefix(s, "ERROR") && s == withFlag[0]) {
				return v.Failf("flag-gate", "overdraft() without its feature flag gives %s (with the flag: %s)", s, withFlag[0])
			}
		}
		for _, s := range withFlag {
			if s != withFlag[0] || s == "ERROR ExperimentalFeature" {
				return v.Failf("flag-gate", "overdraft() with its feature flag gives %s / %s", withFlag[0], s)
			}
		}
	}
	touched := false
	for _, p := range first.Postings {
		if _, ok := ec.Balances[p.Src]; ok {
			touched = true
		}
		if _, ok := ec.Balances[p.Dst]; ok {
			touched = true
		}
	}
	v.NonTrivial = first.OK() && touched
	return v
}
