package props

import (
	"fmt"
	"math/big"
	"sort"

	"pgregory.net/rapid"

	"verifharness/doubles"
	"verifharness/ev"
	"verifharness/gen"
	"verifharness/hx"
	"verifharness/model"
)

// both runs the reference model and the real interpreter on a case.
// failIdx: index of the statement at which the real execution fails, known from prefix runs
// (-1: unknown)
// failReal: the outcome of the shortest prefix of the script that fails (the whole execution
// when unknown): its error is the one of the first failing statement, whichever error the
// whole execution chooses to report when several statements are wrong
type both struct {
	failIdx  int
	failReal hx.Real
	ec       *gen.ExecCase
	real     hx.Real
	m        model.Result
	groups   [][]hx.Posting
	grouped  bool
	// refusedSpelling: the case writes a number / monetary variable with leading zeros and the
	// execution refuses that text as ill-formed. Which spellings of a number a reader accepts
	// is not fixed by any property (what an accepted text *means* is): such a case is set aside.
	refusedSpelling bool
}

func refusedZeroPadded(ec *gen.ExecCase, r hx.Real) bool {
	if r.ErrClass != model.EBadVariableText {
		return false
	}
	for _, d := range ec.Script.Vars {
		if val, ok := ec.Vars[d.Name]; ok && (d.Type == "number" || d.Type == "monetary") && val != gen.ZeroPad(val, 0) {
			return true
		}
	}
	return false
}

func runBoth(ec *gen.ExecCase) *both {
	b := &both{ec: ec, failIdx: -1}
	b.real, _ = hx.Run(ec, doubles.Superset)
	b.failReal = b.real
	b.refusedSpelling = refusedZeroPadded(ec, b.real)
	if b.real.OK() {
		b.groups, b.grouped = hx.Group(ec, b.real, doubles.Superset)
	}
	in := hx.ModelInputs(ec)
	steer := b.groups
	if !b.real.OK() && b.real.Panic == "" && b.real.ParseErrors == 0 && len(ec.Script.Stmts) > 1 {
		// a failed execution: the statements before the failing one are known from prefix runs
		if g, fr, ok := hx.GroupPrefix(ec, b.real, doubles.Superset); ok {
			steer = g
			b.failIdx = len(g)
			b.failReal = fr
		}
	}
	if b.grouped || len(steer) > 0 {
		// every statement is judged on the balances the real execution had reached before it
		// (starting balances + its own earlier postings + the reference's save reservations)
		for _, g := range steer {
			var ps []model.Posting
			for _, p := range g {
				ps = append(ps, model.Posting{Src: p.Src, Dst: p.Dst, Asset: p.Asset, Amt: p.Amt})
			}
			in.Steer = append(in.Steer, ps)
		}
	}
	b.m = model.Run(ec.Script, in)
	return b
}

func isShape(class string) bool {
	return class == model.EUnboundedInSendAll || class == model.EAllotmentInSendAll
}

// staticShapeProblem: does some `send [A *]` of the script have an allotment, @world or an
// unbounded overdraft that no `max` encloses? An address that cannot be resolved without
// running the script counts as possibly world.
func staticShapeProblem(ec *gen.ExecCase) bool {
	decl := map[string]*gen.VarDecl{}
	for i := range ec.Script.Vars {
		decl[ec.Script.Vars[i].Name] = &ec.Script.Vars[i]
	}
	var account func(e *gen.Expr, depth int) (string, bool)
	account = func(e *gen.Expr, depth int) (string, bool) {
		if e == nil || depth > 4 {
			return "", false
		}
		switch e.Kind {
		case gen.EAcct:
			return e.Text, true
		case gen.EVar:
			d := decl[e.Text]
			if d == nil {
				return "", false
			}
			if d.Origin == nil {
				val, ok := ec.Vars[e.Text]
				return val, ok
			}
			if d.Origin.Fn == "meta" && len(d.Origin.Args) == 2 && d.Origin.Args[1].Kind == gen.EStr {
				if holder, ok := account(d.Origin.Args[0], depth+1); ok {
					val, ok := ec.Meta[holder][d.Origin.Args[1].Text]
					return val, ok
				}
			}
		}
		return "", false
	}
	isWorld := func(e *gen.Expr) bool {
		name, ok := account(e, 0)
		return !ok || name == "world"
	}
	var bad func(x *gen.Src) bool
	bad = func(x *gen.Src) bool {
		switch x.Kind {
		case gen.SAcct:
			return isWorld(x.Addr)
		case gen.SOver:
			return x.Bound == nil || isWorld(x.Addr)
		case gen.SInorder:
			for _, c := range x.Subs {
				if bad(c) {
					return true
				}
			}
			return false
		case gen.SAllot:
			return true
		}
		return false // capped: anything goes below a max
	}
	for _, st := range ec.Script.Stmts {
		if st.Kind == gen.StSend && st.All && bad(st.Src) {
			return true
		}
	}
	return false
}

// agree: do model and real agree on success / failure?
func (b *both) agree() bool {
	return (b.m.Err == nil) == b.real.OK()
}

func sumPostings(ps []hx.Posting) *big.Int {
	t := new(big.Int)
	for _, p := range ps {
		t.Add(t, p.Amt)
	}
	return t
}

func flowsString(m map[[2]string]*big.Int) string {
	keys := make([][2]string, 0, len(m))
	for k := range m {
		keys = append(keys, k)
	}
	sort.Slice(keys, func(i, j int) bool {
		if keys[i][0] != keys[j][0] {
			return keys[i][0] < keys[j][0]
		}
		return keys[i][1] < keys[j][1]
	})
	s := ""
	for _, k := range keys {
		if m[k].Sign() != 0 {
			s += fmt.Sprintf("%s->%s:%s ", k[0], k[1], m[k])
		}
	}
	return s
}

// unionKeys maps every key of real or want to the wanted amount (zero when absent).
func unionKeys(real, want map[string]*big.Int) map[string]*big.Int {
	out := map[string]*big.Int{}
	for k := range real {
		out[k] = new(big.Int)
	}
	for k, x := range want {
		out[k] = x
	}
	return out
}

func equalFlows(a, b map[[2]string]*big.Int) bool { return flowsString(a) == flowsString(b) }

func stmtText(ec *gen.ExecCase, i int) string {
	c := ec.Script.Clone()
	return gen.PrintCanonical(&gen.Script{Stmts: c.Stmts[i : i+1]})
}

// ---------------------------------------------------------------- C03

func init() {
	ev.Register(&ev.Prop{
		ID:          "C03",
		Rule:        "typed generator restricted to scripts whose only possible failure is lack of funds (matching assets, portions summing to one, n >= 0 incl. 0 and > 2^64 through variables), 1-4 statements, balances tied to the amounts; oracle: reference interpreter; model fails => real fails with the insufficient-funds class and an empty result on ParseResult.Run and a nil result on interpreter.RunProgram; model succeeds => real succeeds and per fixed send (postings separated by prefix runs) sum = n - kept; non-trivial = the model fails, or it succeeds and a balance-limited account paid something",
		New:         newExecCase,
		Check:       checkC03,
		Assumptions: []string{"the printed script is what the parser reads (C15)", "allotment sources must deliver each share exactly (language semantics); funds received inside a statement are not spendable in that statement"},
	})
	Generators["C03"] = func(t *rapid.T, tier string) any {
		if gen.Chance(t, "c03.wide", 4) {
			return wideCase(t)
		}
		k := gen.DefaultKnobs()
		k.PSendAll = 10
		k.PCall = 4
		k.PWorldFallback = 12
		k.PRich = 10
		k.PBalanceOrigin = 12
		k.SafeBalanceOrigins = true
		k.OverdraftFlag = gen.Chance(t, "odflag", 50)
		if tier == "thorough" {
			k.MaxDepth = 4
		}
		return gen.NewTG(t, k).Case()
	}
}

func checkC03(c any) *ev.Verdict {
	ec := c.(*gen.ExecCase)
	v := &ev.Verdict{}
	scriptLabels(ec, v)
	b := runBoth(ec)
	if b.refusedSpelling {
		v.Skipped = "a number written with leading zeros was refused as ill-formed (allowed)"
		return v
	}
	outcomeLabel(b.real, v)
	if b.real.Panic != "" || b.real.ParseErrors > 0 {
		v.Skipped = "panic or parse error (C12/C14 own these)"
		return v
	}
	if b.m.Err != nil && b.m.Err.Class != model.EMissingFunds {
		v.HarnessError = "C03 generator produced a case whose model outcome is " + b.m.Err.Error()
		return v
	}
	if b.m.Err != nil {
		v.NonTrivial = true
		v.Label("model:fail")
		if b.real.OK() {
			return v.Failf("spurious-success", "the sources cannot supply statement %d (%s) but execution succeeded: %s", b.m.Err.Stmt, b.m.Err.Msg, b.real.Summary())
		}
		if b.failReal.ErrClass != model.EMissingFunds {
			return v.Failf("wrong-class", "funds are missing at statement %d but the error is %s", b.m.Err.Stmt, b.failReal.Summary())
		}
		// which statement fails (known from prefix runs; the reference continued from the
		// balances the real execution had reached)
		if b.failIdx >= 0 && b.failIdx < b.m.Err.Stmt {
			return v.Failf("spurious-failure", "statement %d `%s` fails (%s) although, on the balances left by the statements before it, its sources can supply the amount; only statement %d cannot be funded", b.failIdx, stmtText(ec, b.failIdx), b.real.ErrMsg, b.m.Err.Stmt)
		}
		if b.failIdx > b.m.Err.Stmt {
			return v.Failf("spurious-success", "the sources cannot supply statement %d (%s) but the script executes up to statement %d", b.m.Err.Stmt, b.m.Err.Msg, b.failIdx)
		}
		if b.real.NonEmptyWithError {
			return v.Failf("partial", "error returned together with postings or metadata")
		}
		// the public wrapper hides a partial result: look at the internal entry point too
		ri := hx.RunInternalEC(ec, gen.PrintCanonical(ec.Script), doubles.New(doubles.Superset, hx.Content(ec)))
		if ri.NonEmptyWithError {
			return v.Failf("partial", "interpreter.RunProgram returned a result together with the error %s", ri.ErrMsg)
		}
		return v
	}
	v.Label("model:ok")
	if !b.real.OK() {
		return v.Failf("spurious-failure", "the funds are there (model succeeds) but execution failed: %s", b.real.Summary())
	}
	if !b.grouped {
		v.Label("ungroupable")
		// still check the grand total
		want := new(big.Int)
		for _, s := range b.m.Stmts {
			if s.Kind == gen.StSend {
				want.Add(want, new(big.Int).Sub(s.Sent, s.Kept))
			}
		}
		if got := sumPostings(b.real.Postings); got.Cmp(want) != 0 {
			return v.Failf("sum", "postings add up to %s, expected %s", got, want)
		}
		return v
	}
	for i, s := range b.m.Stmts {
		if s.Kind != gen.StSend {
			if len(b.groups[i]) != 0 {
				return v.Failf("sum", "statement %d is not a send but produced postings", i)
			}
			continue
		}
		want := new(big.Int).Sub(s.Sent, s.Kept)
		if got := sumPostings(b.groups[i]); got.Cmp(want) != 0 {
			return v.Failf("sum", "statement %d `%s`: postings add up to %s, expected %s - %s kept", i, stmtText(ec, i), got, s.Sent, s.Kept)
		}
		for _, d := range s.Draws {
			if d.Acct != "world" {
				v.NonTrivial = true
			}
		}
	}
	return v
}

// ---------------------------------------------------------------- C04

func init() {
	ev.Register(&ev.Prop{
		ID:          "C04",
		Rule:        "typed generator: sends whose destination keeps nothing (debit = draw), source trees of every shape in fixed and send-all mode, including unbounded / allotment sources under send-all with and without an enclosing max, account variables bound to world, negative caps; oracle: per statement and account, debits = reference greedy draw; expected send-all rejections must be rejected with the send-all shape errors and no other send-all is rejected; non-trivial = a statement drew from >= 2 sources, or a shape rejection",
		New:         newExecCase,
		Check:       checkC04,
		Assumptions: []string{"outcome agreement (success/failure) is C03's; cases where it fails are skipped here and counted"},
	})
	Generators["C04"] = func(t *rapid.T, tier string) any {
		if gen.Chance(t, "c04.wide", 3) {
			return wideCase(t)
		}
		k := gen.DefaultKnobs()
		k.PKept = 0
		k.PSendAll = 35
		k.PSave = 5
		k.PCall = 3
		k.ShapeFaults = gen.Chance(t, "shapefaults", 30)
		k.PWorld = 10
		k.PBalanceOrigin = 12
		k.SafeBalanceOrigins = true
		k.OverdraftFlag = gen.Chance(t, "odflag", 50)
		if tier == "thorough" {
			k.MaxDepth = 4
		}
		return gen.NewTG(t, k).Case()
	}
}

func checkC04(c any) *ev.Verdict {
	ec := c.(*gen.ExecCase)
	v := &ev.Verdict{}
	scriptLabels(ec, v)
	b := runBoth(ec)
	if b.refusedSpelling {
		v.Skipped = "a number written with leading zeros was refused as ill-formed (allowed)"
		return v
	}
	outcomeLabel(b.real, v)
	if b.real.Panic != "" || b.real.ParseErrors > 0 {
		v.Skipped = "panic or parse error (C12/C14 own these)"
		return v
	}
	if b.m.Err != nil && !isShape(b.m.Err.Class) && b.m.Err.Class != model.EMissingFunds {
		v.HarnessError = "C04 generator produced a case whose model outcome is " + b.m.Err.Error()
		return v
	}
	// send-all shape clause
	if b.m.Err != nil && isShape(b.m.Err.Class) {
		v.NonTrivial = true
		v.Label("model:shape-rejection")
		if b.real.OK() {
			return v.Failf("shape-accepted", "statement %d takes all from an unbounded/allotment source without an enclosing max, but execution succeeded: %s", b.m.Err.Stmt, b.real.Summary())
		}
		if !isShape(b.failReal.ErrClass) {
			return v.Failf("shape-class", "expected a send-all shape rejection at statement %d, got %s", b.m.Err.Stmt, b.failReal.Summary())
		}
		return v
	}
	if isShape(b.real.ErrClass) {
		if b.m.Err != nil && staticShapeProblem(ec) {
			// the reference execution stopped at an earlier failure; the script does contain a
			// source that send-all cannot take, and which of two failures is reported is not fixed
			v.Label("shape-reported-instead-of-" + b.m.Err.Class)
			return v
		}
		return v.Failf("shape-spurious", "send-all source rejected although every unbounded/allotment source is enclosed by a max: %s", b.real.Summary())
	}
	if !b.agree() {
		// "a negative cap counts as zero": a script that only has such a cap against it must
		// not be refused (a lack of funds is C03's business)
		if b.m.Err == nil && b.failReal.ErrClass != model.EMissingFunds && hasNegativeSourceCap(ec, b.m.Env) {
			return v.Failf("negative-cap-refused", "a source of the script has a negative cap, which counts as zero, and the greedy draw is well defined, but execution is refused: %s", b.failReal.Summary())
		}
		v.Skipped = "model and real disagree on success (C03 owns this)"
		return v
	}
	if b.m.Err != nil {
		return v
	}
	if !b.grouped {
		v.Skipped = "ungroupable (C09 owns this)"
		return v
	}
	for i, s := range b.m.Stmts {
		if s.Kind != gen.StSend {
			continue
		}
		if msg, ok := hx.EqualSums(hx.Debits(b.groups[i]), s.Debits); !ok {
			return v.Failf("debit", "statement %d `%s`: debited (real vs greedy draw) %s; real postings %v; model draws %v", i, stmtText(ec, i), msg, b.groups[i], s.Draws)
		}
		if len(s.Draws) >= 2 {
			v.NonTrivial = true
		}
	}
	return v
}

// ---------------------------------------------------------------- C05

func init() {
	ev.Register(&ev.Prop{
		ID:          "C05",
		Rule:        "typed generator: destination trees of every shape (ordered caps negative/0/</=/> what is left/huge, allotments, nesting, kept anywhere), source mostly @world; oracle: per statement and account, credits = reference distribution, and credited + kept = sent; non-trivial = >= 2 destination shares, or kept > 0",
		New:         newExecCase,
		Check:       checkC05,
		Assumptions: []string{"outcome agreement (success/failure) is C03's; cases where it fails are skipped here and counted"},
	})
	Generators["C05"] = func(t *rapid.T, tier string) any {
		k := gen.DefaultKnobs()
		k.PKept = 22
		k.PNegCap = 18
		k.PSave = 3
		k.PCall = 3
		k.PWorldFallback = 40
		k.PWeirdAccount = 2
		if tier == "thorough" {
			k.MaxDepth = 4
			k.MaxWidth = 5
		} else {
			k.MaxWidth = 5
		}
		if gen.Chance(t, "c05.aligned", 10) {
			// draw list and distribution list with coinciding boundaries
			tight := gen.Chance(t, "c05.tight", 50)
			ec := gen.AlignedCase(t, tight)
			if tight || gen.Chance(t, "c05.aligned.colliding", 30) {
				ec.Rename(gen.CollidingNames(1))
			}
			return ec
		}
		ec := gen.NewTG(t, k).Case()
		for _, st := range ec.Script.Stmts {
			if st.Kind == gen.StSend && !st.All && gen.Chance(t, "c05.world", 50) {
				st.Src = &gen.Src{Kind: gen.SAcct, Addr: gen.Acct("world")}
			}
		}
		// segmented account names whose "source:destination" spellings coincide
		if gen.Chance(t, "c05.colliding", 12) {
			ec.Rename(gen.CollidingNames(1))
		}
		return ec
	}
}

func checkC05(c any) *ev.Verdict {
	ec := c.(*gen.ExecCase)
	v := &ev.Verdict{}
	scriptLabels(ec, v)
	b := runBoth(ec)
	if b.refusedSpelling {
		v.Skipped = "a number written with leading zeros was refused as ill-formed (allowed)"
		return v
	}
	outcomeLabel(b.real, v)
	if b.real.Panic != "" || b.real.ParseErrors > 0 {
		v.Skipped = "panic or parse error (C12/C14 own these)"
		return v
	}
	if b.m.Err != nil && b.m.Err.Class == model.EInvalidAccountName {
		// an account variable whose text is not an account name (empty, the kept marker...):
		// nothing may be credited to it, the run has to be refused
		v.NonTrivial = true
		v.Label("invalid-account-name")
		if b.real.ErrClass != model.EInvalidAccountName {
			return v.Failf("invalid-account", "an account variable holds a text that is not an account name (%s) but execution gives %s", b.m.Err.Msg, b.real.Summary())
		}
		return v
	}
	if b.m.Err != nil && b.m.Err.Class != model.EMissingFunds {
		v.HarnessError = "C05 generator produced a case whose model outcome is " + b.m.Err.Error()
		return v
	}
	if !b.agree() {
		// "a negative cap counts as zero": a script that only has such a cap against it must
		// not be refused (a lack of funds is C03's business)
		if b.m.Err == nil && b.failReal.ErrClass != model.EMissingFunds && hasNegativeDestCap(ec, b.m.Env) {
			return v.Failf("negative-cap-refused", "a destination of the script has a negative cap, which counts as zero, and the declared distribution is well defined, but execution is refused: %s", b.failReal.Summary())
		}
		v.Skipped = "model and real disagree on success (C03 owns this)"
		return v
	}
	if b.m.Err != nil {
		return v
	}
	if !b.grouped {
		v.Skipped = "ungroupable (C09 owns this)"
		return v
	}
	for i, s := range b.m.Stmts {
		if s.Kind != gen.StSend {
			continue
		}
		cr := hx.Credits(b.groups[i])
		if msg, ok := hx.EqualSums(cr, s.Credits); !ok {
			return v.Failf("credit", "statement %d `%s`: credited (real vs declared distribution) %s; real postings %v; model shares %v", i, stmtText(ec, i), msg, b.groups[i], s.Recv)
		}
		tot := sumPostings(b.groups[i])
		tot.Add(tot, s.Kept)
		if tot.Cmp(s.Sent) != 0 {
			return v.Failf("conservation", "statement %d: credited + kept = %s but %s was sent", i, tot, s.Sent)
		}
		if len(s.Recv) >= 2 || s.Kept.Sign() > 0 {
			v.NonTrivial = true
		}
	}
	return v
}

// hasNegativeSourceCap: does a `max` of some source evaluate to a negative amount?
func hasNegativeSourceCap(ec *gen.ExecCase, env map[string]model.Val) bool {
	found := false
	var walk func(x *gen.Src)
	walk = func(x *gen.Src) {
		if x == nil {
			return
		}
		if x.Kind == gen.SCapped {
			if val, ok := model.EvalIn(env, x.Cap); ok && val.N != nil && val.N.Sign() < 0 {
				found = true
			}
		}
		for _, c := range x.Subs {
			walk(c)
		}
		for i := range x.Items {
			walk(x.Items[i].From)
		}
		walk(x.From)
	}
	for _, st := range ec.Script.Stmts {
		if st.Kind == gen.StSend {
			walk(st.Src)
		}
	}
	return found
}

// hasNegativeDestCap: does a `max` clause of some ordered destination evaluate to a negative amount?
func hasNegativeDestCap(ec *gen.ExecCase, env map[string]model.Val) bool {
	found := false
	var walk func(d *gen.Dst)
	walkK := func(k *gen.KOD) {
		if k != nil && !k.Kept {
			walk(k.Dst)
		}
	}
	walk = func(d *gen.Dst) {
		if d == nil {
			return
		}
		for i := range d.Clauses {
			if val, ok := model.EvalIn(env, d.Clauses[i].Cap); ok && val.N != nil && val.N.Sign() < 0 {
				found = true
			}
			walkK(&d.Clauses[i].To)
		}
		walkK(d.Remaining)
		for i := range d.Items {
			walkK(&d.Items[i].To)
		}
	}
	for _, st := range ec.Script.Stmts {
		if st.Kind == gen.StSend {
			walk(st.Dst)
		}
	}
	return found
}

// ---------------------------------------------------------------- C08

func init() {
	ev.Register(&ev.Prop{
		ID:    "C08",
		Rule:  "typed generator with many save statements (fixed and `*`, through variables) placed among sends on the same and on unrelated (account, asset) pairs, balances negative/0/</=/> the saved amount, sends with and without overdraft grants after the save, negative saved amounts, save-only scripts; oracle: reference model's visible balance for every later statement (debits, credits, success/failure), negative n => negative-amount error, save itself yields no posting; non-trivial = the save matters (the model's outcome without the save statements differs)",
		New:   newExecCase,
		Check: checkC08,
	})
	Generators["C08"] = func(t *rapid.T, tier string) any {
		if gen.Chance(t, "c08.focused", 60) {
			return focusedSaveCase(t)
		}
		k := gen.DefaultKnobs()
		k.PSave = 40
		k.PWorldOddPlaces = 5
		k.PCall = 2
		k.PSendAll = 20
		k.MinStmts = 2
		k.MaxStmts = 5
		k.Accounts = []string{"a", "b"}
		k.Assets = []string{"USD", "EUR"}
		k.PNegBal = 20
		k.PBounded = 25
		k.MaxDepth = 2
		k.PAllotSrc = 5
		if tier == "thorough" {
			k.MaxDepth = 3
			k.Accounts = []string{"a", "b", "c"}
		}
		g := gen.NewTG(t, k)
		ec := g.Case()
		// occasionally a negative saved amount
		if gen.Chance(t, "c08.negsave", 6) {
			for _, st := range ec.Script.Stmts {
				if st.Kind == gen.StSave && !st.All {
					st.Sent = gen.Mon(gen.Asset(k.Assets[0]), gen.NumI(int64(-1-gen.Uniform(t, "c08.neg", 5))))
					break
				}
			}
		}
		return ec
	}
}

// focusedSaveCase: saves and sends on one (account, asset) pair, amounts tied to its balance.
func focusedSaveCase(t *rapid.T) *gen.ExecCase {
	bal := gen.Uniform(t, "f.bal", 22) - 6
	ec := &gen.ExecCase{Script: &gen.Script{}, Vars: map[string]string{}, Balances: map[string]map[string]string{
		"x": {"USD": fmt.Sprint(bal)}, "y": {"USD": fmt.Sprint(gen.Uniform(t, "f.baly", 8))}}}
	amt := func(label string) *big.Int {
		hi := bal
		if hi < 0 {
			hi = 0
		}
		return big.NewInt(int64(gen.Uniform(t, label, hi+4)))
	}
	mon := func(n *big.Int) *gen.Expr {
		if gen.Chance(t, "f.var", 20) {
			name := fmt.Sprintf("m%d", len(ec.Script.Vars))
			ec.Script.Vars = append(ec.Script.Vars, gen.VarDecl{Type: "monetary", Name: name})
			ec.Vars[name] = "USD " + n.String()
			return gen.Var(name)
		}
		return gen.Mon(gen.Asset("USD"), gen.Num(n))
	}
	srcX := func() *gen.Src {
		switch gen.Uniform(t, "f.src", 5) {
		case 0:
			return &gen.Src{Kind: gen.SOver, Addr: gen.Acct("x"), Bound: mon(big.NewInt(int64(gen.Uniform(t, "f.od", 6))))}
		case 1:
			return &gen.Src{Kind: gen.SInorder, Subs: []*gen.Src{{Kind: gen.SAcct, Addr: gen.Acct("x")}, {Kind: gen.SAcct, Addr: gen.Acct("y")}}}
		case 2:
			return &gen.Src{Kind: gen.SCapped, Cap: mon(amt("f.cap")), From: &gen.Src{Kind: gen.SAcct, Addr: gen.Acct("x")}}
		default:
			return &gen.Src{Kind: gen.SAcct, Addr: gen.Acct("x")}
		}
	}
	n := 2 + gen.Uniform(t, "f.n", 4)
	for i := 0; i < n; i++ {
		dst := &gen.Dst{Kind: gen.DAcct, Addr: gen.Acct(gen.Pick(t, "f.dst", []string{"d", "x", "y"}))}
		if gen.Chance(t, "f.richdst", 30) {
			// destinations that keep a part (at the top, nested, in an allotment): the source
			// retains funds that a later save has to reserve like any others
			to := func(n string) gen.KOD { return gen.KOD{Dst: &gen.Dst{Kind: gen.DAcct, Addr: gen.Acct(n)}} }
			kept := gen.KOD{Kept: true}
			other := gen.Pick(t, "f.dst2", []string{"d", "y"})
			switch gen.Uniform(t, "f.dstkind", 4) {
			case 0:
				dst = &gen.Dst{Kind: gen.DInorder, Clauses: []gen.DstClause{{Cap: mon(amt("f.dcap")), To: to(other)}}, Remaining: &kept}
			case 1:
				r := to(other)
				dst = &gen.Dst{Kind: gen.DInorder, Clauses: []gen.DstClause{{Cap: mon(amt("f.dcap")), To: kept}}, Remaining: &r}
			case 2:
				r2 := to("d")
				inner := gen.KOD{Dst: &gen.Dst{Kind: gen.DInorder, Clauses: []gen.DstClause{{Cap: mon(amt("f.dcap2")), To: kept}}, Remaining: &r2}}
				dst = &gen.Dst{Kind: gen.DInorder, Clauses: []gen.DstClause{{Cap: mon(amt("f.dcap")), To: to(other)}}, Remaining: &inner}
			default:
				dst = &gen.Dst{Kind: gen.DAllot, Items: []gen.DstItem{
					{Portion: gen.Allot{Kind: gen.ALit, Text: "1/2"}, To: to(other)},
					{Portion: gen.Allot{Kind: gen.ARemaining}, To: kept}}}
			}
		}
		switch gen.Uniform(t, "f.kind", 6) {
		case 0, 1:
			st := &gen.Stmt{Kind: gen.StSave, SaveFrom: gen.Acct(gen.Pick(t, "f.saveacct", []string{"x", "x", "x", "y"}))}
			if gen.Chance(t, "f.saveall", 25) {
				st.All, st.Sent = true, gen.Asset("USD")
			} else {
				st.Sent = mon(amt("f.save"))
			}
			ec.Script.Stmts = append(ec.Script.Stmts, st)
		case 2:
			ec.Script.Stmts = append(ec.Script.Stmts, &gen.Stmt{Kind: gen.StSend, All: true, Sent: gen.Asset("USD"), Src: srcX(), Dst: dst})
		default:
			ec.Script.Stmts = append(ec.Script.Stmts, &gen.Stmt{Kind: gen.StSend, Sent: mon(amt("f.send")), Src: srcX(), Dst: dst})
		}
	}
	return ec
}

func withoutSaves(ec *gen.ExecCase) *gen.ExecCase {
	c := *ec
	c.Script = ec.Script.Clone()
	var keep []*gen.Stmt
	for _, s := range c.Script.Stmts {
		if s.Kind != gen.StSave {
			keep = append(keep, s)
		}
	}
	c.Script.Stmts = keep
	return &c
}

func modelSummary(m model.Result) string {
	if m.Err != nil {
		return "fail:" + m.Err.Class
	}
	s := ""
	for _, st := range m.Stmts {
		if st.Kind == gen.StSend {
			s += "[" + flowsString(st.Flows) + "]"
		}
	}
	return s
}

func checkC08(c any) *ev.Verdict {
	ec := c.(*gen.ExecCase)
	v := &ev.Verdict{}
	scriptLabels(ec, v)
	b := runBoth(ec)
	if b.refusedSpelling {
		v.Skipped = "a number written with leading zeros was refused as ill-formed (allowed)"
		return v
	}
	outcomeLabel(b.real, v)
	if b.real.Panic != "" || b.real.ParseErrors > 0 {
		v.Skipped = "panic or parse error (C12/C14 own these)"
		return v
	}
	if !hasFeature(ec, "save") {
		v.Skipped = "no save statement"
		return v
	}
	if b.m.Err != nil && b.m.Err.Class != model.EMissingFunds && b.m.Err.Class != model.ENegativeAmount {
		v.HarnessError = "C08 generator produced a case whose model outcome is " + b.m.Err.Error()
		return v
	}
	// does the save matter?
	m2 := model.Run(withoutSaves(ec).Script, hx.ModelInputs(ec))
	v.NonTrivial = modelSummary(m2) != modelSummary(b.m)
	if b.m.Err != nil {
		if b.real.OK() {
			if b.m.Err.Class == model.ENegativeAmount {
				return v.Failf("negative-save", "statement %d saves a negative amount but execution succeeded: %s", b.m.Err.Stmt, b.real.Summary())
			}
			return v.Failf("saved-funds-spent", "with the reservations made by save, statement %d cannot be funded (%s), yet execution succeeded: %s", b.m.Err.Stmt, b.m.Err.Msg, b.real.Summary())
		}
		if b.failReal.ErrClass != b.m.Err.Class {
			return v.Failf("class", "expected %s at statement %d, got %s", b.m.Err.Class, b.m.Err.Stmt, b.failReal.Summary())
		}
		return v
	}
	if !b.real.OK() {
		return v.Failf("spurious-failure", "the model succeeds (save reserves less than what is needed) but execution failed: %s", b.real.Summary())
	}
	if !b.grouped {
		v.Skipped = "ungroupable (C09 owns this)"
		return v
	}
	// what later statements take from the (account, asset) pairs saved so far must be what the
	// save rule leaves visible; other accounts, the pairing and the distribution belong to
	// C04, C07 and C05
	saved := map[[2]string]bool{}
	for i, s := range b.m.Stmts {
		if s.Kind == gen.StSave {
			if len(b.groups[i]) != 0 {
				return v.Failf("save-posting", "save statement %d produced postings %v", i, b.groups[i])
			}
			st := ec.Script.Stmts[i]
			acct, ok1 := model.EvalIn(b.m.Env, st.SaveFrom)
			sent, ok2 := model.EvalIn(b.m.Env, st.Sent)
			if ok1 && ok2 {
				saved[[2]string{acct.S, sent.S}] = true
			}
			continue
		}
		if s.Kind != gen.StSend {
			continue
		}
		real := hx.Debits(b.groups[i])
		for acct, want := range unionKeys(real, s.Debits) {
			if !saved[[2]string{acct, s.Asset}] {
				continue
			}
			got := real[acct]
			if got == nil {
				got = new(big.Int)
			}
			// when the destination keeps a part, which source is spared is C07's business: only
			// "the saved amount cannot be sent" is asserted then (no more than what the save
			// rule lets the statement draw from the account, before anything is kept)
			bad := got.Cmp(want) != 0
			if s.Kept.Sign() > 0 {
				drawn := new(big.Int)
				for _, d := range s.Draws {
					if d.Acct == acct {
						drawn.Add(drawn, d.Amt)
					}
				}
				bad = got.Cmp(drawn) > 0
			}
			if bad {
				return v.Failf("visible-balance", "statement %d `%s`: takes %s from %s, whose %s was saved earlier; under the save rule it can take %s; real flows %s, flows under the save rule %s", i, stmtText(ec, i), got, acct, s.Asset, want, flowsString(hx.Flows(b.groups[i])), flowsString(s.Flows))
			}
		}
	}
	return v
}
