package props

import (
	"bytes"
	"encoding/json"
	"fmt"
	"os"
	"regexp"
	"runtime/debug"
	"sort"
	"strconv"
	"strings"
	"sync"

	"pgregory.net/rapid"

	"github.com/formancehq/numscript/verifapi"

	"verifharness/ev"
	"verifharness/gen"
	"verifharness/lex"
)

// ---- stdout capture: the server writes notifications to os.Stdout (and a copy to os.Stderr)

var capMu sync.Mutex
var capFile, nullFile *os.File

func captureStdout(f func()) string {
	capMu.Lock()
	defer capMu.Unlock()
	if capFile == nil {
		var err error
		capFile, err = os.CreateTemp("", "verif-lsp-out-*")
		if err != nil {
			panic(err)
		}
		os.Remove(capFile.Name())
		nullFile, _ = os.OpenFile(os.DevNull, os.O_WRONLY, 0)
	}
	capFile.Truncate(0)
	capFile.Seek(0, 0)
	oldOut, oldErr := os.Stdout, os.Stderr
	os.Stdout, os.Stderr = capFile, nullFile
	func() {
		defer func() { os.Stdout, os.Stderr = oldOut, oldErr }()
		f()
	}()
	n, _ := capFile.Seek(0, 1)
	buf := make([]byte, n)
	capFile.ReadAt(buf, 0)
	return string(buf)
}

var frameRe = regexp.MustCompile(`Content-Length: (\d+)\r\n\r\n`)

// splitFrames decodes the Content-Length framed messages written by the server.
func splitFrames(out string) ([]string, error) {
	var msgs []string
	for len(out) > 0 {
		loc := frameRe.FindStringSubmatchIndex(out)
		if loc == nil || loc[0] != 0 {
			return msgs, fmt.Errorf("unframed output %q", out)
		}
		n, _ := strconv.Atoi(out[loc[2]:loc[3]])
		body := out[loc[1]:]
		if len(body) < n {
			return msgs, fmt.Errorf("short frame")
		}
		msgs = append(msgs, body[:n])
		out = body[n:]
	}
	return msgs, nil
}

// ---- a thin client

type lspResult struct {
	Response string   // JSON of the handler's return value
	Notifs   []string // normalised publishDiagnostics payloads
	Panic    string
	Raw      string
}

func normaliseNotif(msg string) string {
	var m struct {
		Method string `json:"method"`
		Params struct {
			URI         string            `json:"uri"`
			Diagnostics []json.RawMessage `json:"diagnostics"`
		} `json:"params"`
	}
	if err := json.Unmarshal([]byte(msg), &m); err != nil {
		return "UNPARSABLE " + msg
	}
	var ds []string
	for _, d := range m.Params.Diagnostics {
		var buf bytes.Buffer
		json.Compact(&buf, d)
		ds = append(ds, buf.String())
	}
	sort.Strings(ds)
	return m.Method + " uri=" + m.Params.URI + " [" + strings.Join(ds, ", ") + "]"
}

// libraryDiagnostics: what the analysis of the text reports, as range|severity|message keys
// (sorted); ok=false when the analysis panics.
func libraryDiagnostics(text string) ([]string, bool) {
	a := analyse(text)
	if a.panic != "" {
		return nil, false
	}
	var out []string
	for _, d := range a.raw {
		out = append(out, fmt.Sprintf("%d:%d-%d:%d|%d|%s", d.Range.Start.Line, d.Range.Start.Character, d.Range.End.Line, d.Range.End.Character, d.Kind.Severity(), d.Kind.Message()))
	}
	sort.Strings(out)
	return out, true
}

// publishedDiagnostics decodes the diagnostics of a normalised notification into the same keys.
func publishedDiagnostics(n string) ([]string, bool) {
	i := strings.Index(n, " [")
	if i < 0 {
		return nil, false
	}
	var ds []struct {
		Range struct {
			Start, End struct{ Line, Character int }
		}
		Severity int
		Message  string
	}
	if json.Unmarshal([]byte(n[i+1:]), &ds) != nil {
		return nil, false
	}
	var out []string
	for _, d := range ds {
		out = append(out, fmt.Sprintf("%d:%d-%d:%d|%d|%s", d.Range.Start.Line, d.Range.Start.Character, d.Range.End.Line, d.Range.End.Character, d.Severity, d.Message))
	}
	sort.Strings(out)
	return out, true
}

// heldMatchesLibrary: the set the client holds for a text is the set the analysis reports.
func heldMatchesLibrary(have, text string) (string, bool) {
	lib, ok := libraryDiagnostics(text)
	if !ok {
		return "", true
	}
	pub, ok := publishedDiagnostics(have)
	if !ok {
		return "the published diagnostics cannot be decoded: " + have, false
	}
	if strings.Join(lib, "\n") != strings.Join(pub, "\n") {
		return fmt.Sprintf("the client holds %v, the analysis of the latest text reports %v", pub, lib), false
	}
	return "", true
}

// notifURI extracts the uri of a normalised notification.
func notifURI(n string) string {
	i := strings.Index(n, " uri=")
	if i < 0 {
		return ""
	}
	rest := n[i+5:]
	if j := strings.Index(rest, " ["); j >= 0 {
		return rest[:j]
	}
	return rest
}

func normaliseSymbols(resp string) string {
	var arr []json.RawMessage
	if json.Unmarshal([]byte(resp), &arr) != nil {
		return resp
	}
	var xs []string
	for _, a := range arr {
		xs = append(xs, string(a))
	}
	sort.Strings(xs)
	return "[" + strings.Join(xs, ",") + "]"
}

func lspCall(st *verifapi.LspState, method string, params any) (out lspResult) {
	pj, _ := json.Marshal(params)
	raw := captureStdout(func() {
		defer func() {
			if r := recover(); r != nil {
				out.Panic = fmt.Sprintf("%v\n%s", r, debug.Stack())
			}
		}()
		res := verifapi.LspHandle(st, method, pj)
		b, err := json.Marshal(res)
		if err != nil {
			out.Response = "UNMARSHALABLE " + err.Error()
		} else {
			out.Response = string(b)
		}
	})
	out.Raw = raw
	msgs, err := splitFrames(raw)
	if err != nil {
		out.Notifs = append(out.Notifs, "BAD-FRAMING "+err.Error())
	}
	for _, m := range msgs {
		out.Notifs = append(out.Notifs, normaliseNotif(m))
	}
	if method == "textDocument/documentSymbol" {
		out.Response = normaliseSymbols(out.Response)
	}
	return
}

// analysisSurvives tells who owns a panic of the language server: when the analysis functions
// themselves (CheckSource, GetSymbols, HoverOn and GotoDefinition at that position) panic on
// the text it is C18's business and the case is set aside here; when they do not, the crash is
// the server's own - the request got no answer at all, let alone the right one.
func analysisSurvives(text string, line, char int) bool {
	a := analyse(text)
	if a.panic != "" {
		return false
	}
	return navigate(a.res, line, char) == ""
}

func docParams(uri string) map[string]any {
	return map[string]any{"textDocument": map[string]any{"uri": uri}}
}

func posParams(uri string, line, char int) map[string]any {
	return map[string]any{"textDocument": map[string]any{"uri": uri}, "position": map[string]any{"line": line, "character": char}}
}

// ---- histories

type LspOp struct {
	Kind  string   `json:"kind"` // open change hover definition symbols
	URI   string   `json:"uri"`
	Texts []string `json:"texts,omitempty"` // open: one text; change: one or more content changes (the last one counts)
	Line  int      `json:"line,omitempty"`
	Char  int      `json:"char,omitempty"`
}

type C19Case struct {
	Ops []LspOp `json:"ops"`
}

var lspURIs = []string{"file:///a.num", "file:///b.num", "file:///dir/a.num"}

// uri sets for histories: uris are opaque, so names that differ only in letter case are
// different documents
var lspURISets = [][]string{
	lspURIs,
	{"file:///a.num", "file:///A.num", "file:///b.num"},
	{"file:///ledger/Fees.num", "file:///ledger/fees.num", "file:///LEDGER/fees.num"},
	{"untitled:Untitled-1", "untitled:untitled-1", "file:///a.num"},
}

func lspTextPool(t *rapid.T, tier string) []string {
	var pool []string
	for i := 0; i < 3; i++ {
		k := gen.DefaultKnobs()
		k.MaxStmts = 3
		k.PVarRepr = 45
		ec := gen.NewTG(t, k).Case()
		s := ec.Script
		lay := &gen.ListLayout{Seps: []string{" ", "\n", " ", " ", "\n  "}}
		pool = append(pool, gen.Print(s, lay).Text)
	}
	// warning-only and broken variants
	pool = append(pool, "vars { account $unused number $n }\nsend [USD $n] (\n  source = @world\n  destination = @d\n)\n")
	text, toks := baseText(t, tier)
	broken, _ := mutateText(t, text, toks)
	pool = append(pool, broken, "", "send [USD 1] (source = $nosuch destination = @b)")
	// texts that differ only in trailing white space, and whose diagnostics depend on it
	pool = append(pool, "send [COIN 10] (", "send [COIN 10] (\n", "send [COIN 10] (\n\n  ", "send [USD 1] (source = @a destination = @b) // c", "send [USD 1] (source = @a destination = @b) // c\n")
	// two texts whose diagnostics differ only in where a range ends
	pool = append(pool, "set_tx_meta(12, \"x\")\n", "set_tx_meta(123456, \"x\")\n")
	return pool
}

func init() {
	ev.Register(&ev.Prop{
		ID:    "C19",
		Rule:  "(a) generated histories (6-30 requests) over one long-lived server state: didOpen, didChange (1-2 content changes, the last one counts), hover, definition, documentSymbol over 3 URIs and a pool of generated texts (clean typed scripts, warning-only, broken by the C14 mutators, empty); requests only on opened documents; oracle: model = uri -> latest text; every response and every publishDiagnostics payload captured from stdout equals what a fresh server state that only saw didOpen(uri, latest text) answers (symbols and diagnostics as multisets), exactly one notification per open/change, carrying the uri of the request; non-trivial = >= 2 documents open and >= 1 change before a request",
		New:   func() any { return &C19Case{} },
		Check: checkC19,
	})
	Generators["C19"] = func(t *rapid.T, tier string) any {
		pool := lspTextPool(t, tier)
		c := &C19Case{}
		open := map[string]string{}
		lastPos := map[string][2]int{}
		n := 6 + gen.Uniform(t, "nops", 25)
		uris := gen.Pick(t, "uriset", lspURISets)
		// long one-sided histories (2 %): hundreds of notifications about one document while
		// another one is left alone, then questions about the quiet one (nothing may be
		// forgotten however long ago it was sent)
		long := gen.Chance(t, "long", 2)
		busy := uris[0]
		if long {
			n = 130 + gen.Uniform(t, "long.n", 150)
			busy = gen.Pick(t, "long.busy", uris)
		}
		for i := 0; i < n; i++ {
			uri := gen.Pick(t, "uri", uris)
			if long && i < 2 {
				uri = uris[i%len(uris)]
			} else if long && i < n-6 {
				uri = busy
			}
			_, isOpen := open[uri]
			kind := gen.Pick(t, "kind", []string{"open", "change", "change", "hover", "hover", "definition", "symbols"})
			if long && i >= 2 && i < n-6 && gen.Chance(t, "long.change", 90) {
				kind = "change"
			}
			if !isOpen {
				kind = "open"
			}
			op := LspOp{Kind: kind, URI: uri}
			switch kind {
			case "open":
				op.Texts = []string{gen.Pick(t, "text", pool)}
				open[uri] = op.Texts[0]
			case "change":
				if gen.Chance(t, "nochange", 6) {
					op.Texts = nil // a change notification without content changes: the text stays
					break
				}
				op.Texts = []string{gen.Pick(t, "text", pool)}
				if gen.Chance(t, "two", 35) {
					op.Texts = append(op.Texts, gen.Pick(t, "text2", pool))
				}
				open[uri] = op.Texts[len(op.Texts)-1]
			case "hover", "definition":
				// often the position asked last on this document (the text may have been
				// replaced in between: nothing remembered per position may survive that)
				if lp, ok := lastPos[uri]; ok && gen.Chance(t, "pos.same", 40) {
					op.Line, op.Char = lp[0], lp[1]
				} else {
					op.Line, op.Char = pickPosition(t, open[uri])
				}
				lastPos[uri] = [2]int{op.Line, op.Char}
			}
			c.Ops = append(c.Ops, op)
		}
		return c
	}
	ev.Register(&ev.Prop{
		ID:        "C19X",
		Rule:      "(b) exhaustive: all well-formed histories of length <= 3 (thorough: 4) over 2 URIs x 3 texts (clean with a variable, warning-only, broken) x 2 positions (on a variable use, elsewhere), with the same fresh-state oracle",
		New:       func() any { return &C19Case{} },
		Check:     checkC19,
		Enumerate: enumC19,
	})
	ev.Register(&ev.Prop{
		ID:    "C19N",
		Rule:  "(c) navigation: generated typed scripts (valid, every variable declared once) printed over several lines, with BMP non-ASCII characters in strings, x every cursor position; oracle (absolute): a position strictly inside a use of a declared variable gives a hover that names $name and its declared type with range = the use's span, and a definition = the span of the declaring name token in the same uri; inside a built-in function name (statement or origin) the hover shows that function and there is no definition; any position not within [start, end] of such a token gives nothing (position = end is accepted either way); non-trivial = some use is nested (cap, overdraft bound, allotment variable, nested destination, infix operand, monetary part)",
		New:   func() any { return &C19NCase{} },
		Check: checkC19N,
	})
	Generators["C19N"] = func(t *rapid.T, tier string) any {
		k := gen.DefaultKnobs()
		k.MaxStmts = 4
		k.PVarRepr = 50
		k.PCall = 20
		k.PBalanceOrigin = 30
		k.POrigin = 30
		k.PInfix = 20
		k.OverdraftFlag = true
		if tier == "thorough" {
			k.MaxDepth = 4
		}
		ec := gen.NewTG(t, k).Case()
		// a declaration with a type name that does not exist is still a declaration
		if len(ec.Script.Vars) > 0 && gen.Chance(t, "nav.badtype", 12) {
			ec.Script.Vars[gen.Uniform(t, "nav.badtype.i", len(ec.Script.Vars))].Type = gen.Pick(t, "nav.badtype.t", []string{"acount", "int", "monetaryy"})
		}
		var seps []string
		for i, n := 0, 4+gen.Uniform(t, "nseps", 8); i < n; i++ {
			seps = append(seps, gen.Pick(t, "sep", []string{" ", " ", " ", "", "", "\n", "\n  ", "  ", "\t", " /* é */ ", "/**/", "// c\n"}))
		}
		return &C19NCase{Script: ec.Script, Seps: seps, URI: gen.Pick(t, "uri", lspURIs)}
	}
}

func pickPosition(t *rapid.T, text string) (int, int) {
	r := lex.Lex(text)
	if len(r.Tokens) > 0 && gen.Chance(t, "pos.token", 75) {
		tk := gen.Pick(t, "pos.tok", r.Tokens)
		return tk.Line, tk.Col + gen.Uniform(t, "pos.in", lex.RuneLen(tk.Text)+1)
	}
	lines := strings.Split(text, "\n")
	l := gen.Uniform(t, "pos.line", len(lines)+1)
	c := gen.Uniform(t, "pos.char", 30)
	return l, c
}

func enumC19(tier string, shard, nshards int, visit func(any) bool) (string, bool) {
	texts := []string{
		"vars { account $acc }\nsend [USD 1] (source = $acc destination = @b)",
		"vars { account $acc number $unused }\nsend [USD 2] (source = @world destination = $acc)",
		"vars { account $acc\nsend [USD 3] (source = $acc destination = ",
	}
	// position 0: on `$acc` in the second line of texts 0 and 2 ; position 1: line 0 char 1
	positions := [][2]int{{1, 24}, {0, 1}}
	uris := lspURIs[:2]
	var alphabet []LspOp
	for _, u := range uris {
		for _, tx := range texts {
			alphabet = append(alphabet, LspOp{Kind: "open", URI: u, Texts: []string{tx}})
			alphabet = append(alphabet, LspOp{Kind: "change", URI: u, Texts: []string{tx}})
		}
		for _, p := range positions {
			alphabet = append(alphabet, LspOp{Kind: "hover", URI: u, Line: p[0], Char: p[1]})
			alphabet = append(alphabet, LspOp{Kind: "definition", URI: u, Line: p[0], Char: p[1]})
		}
		alphabet = append(alphabet, LspOp{Kind: "symbols", URI: u})
	}
	maxLen := 3
	if tier == "thorough" {
		maxLen = 4
	}
	idx := 0
	ok := true
	var rec func(cur []LspOp, open map[string]bool)
	rec = func(cur []LspOp, open map[string]bool) {
		if !ok {
			return
		}
		if len(cur) > 0 {
			idx++
			if idx%nshards == shard {
				if !visit(&C19Case{Ops: append([]LspOp{}, cur...)}) {
					ok = false
					return
				}
			}
		}
		if len(cur) == maxLen {
			return
		}
		for _, op := range alphabet {
			if op.Kind != "open" && !open[op.URI] {
				continue
			}
			if op.Kind == "open" && open[op.URI] {
				continue // re-opening an open document is not a well-formed history
			}
			was := open[op.URI]
			open[op.URI] = true
			rec(append(cur, op), open)
			open[op.URI] = was
		}
	}
	rec(nil, map[string]bool{})
	return fmt.Sprintf("all well-formed histories of length <= %d over 2 URIs x 3 texts x 2 positions", maxLen), ok
}

// asTransported is the text as a language server receives it: the protocol carries texts in
// JSON, which cannot hold bytes that are not UTF-8 (each becomes U+FFFD). What the server is
// compared with is the analysis of *that* text.
func asTransported(text string) string {
	b, err := json.Marshal(text)
	if err != nil {
		return text
	}
	var out string
	if json.Unmarshal(b, &out) != nil {
		return text
	}
	return out
}

func transportTexts(ops []LspOp) {
	for i := range ops {
		for j := range ops[i].Texts {
			ops[i].Texts[j] = asTransported(ops[i].Texts[j])
		}
	}
}

func checkC19(cc any) *ev.Verdict {
	c := cc.(*C19Case)
	v := &ev.Verdict{}
	inflight(c)
	transportTexts(c.Ops)
	st := verifapi.LspInitialState()
	latest := map[string]string{}
	view := map[string]string{} // uri -> last published diagnostics
	changes := 0
	fresh := func(uri, text string) (*verifapi.LspState, lspResult) {
		fs := verifapi.LspInitialState()
		r := lspCall(&fs, "textDocument/didOpen", map[string]any{"textDocument": map[string]any{"uri": uri, "text": text}})
		return &fs, r
	}
	for i, op := range c.Ops {
		v.Label("op:" + op.Kind)
		switch op.Kind {
		case "open", "change":
			var r lspResult
			if op.Kind == "change" && len(op.Texts) == 0 {
				// no content change: the server must survive and the document stays as it was
				r = lspCall(&st, "textDocument/didChange", map[string]any{"textDocument": map[string]any{"uri": op.URI, "version": i}, "contentChanges": []any{}})
				if r.Panic != "" {
					return v.Failf("empty-change", "step %d: a didChange notification without content changes crashes the server: %s", i, firstLines(r.Panic, 6))
				}
				changes++
				continue
			}
			text := op.Texts[len(op.Texts)-1]
			if op.Kind == "open" {
				r = lspCall(&st, "textDocument/didOpen", map[string]any{"textDocument": map[string]any{"uri": op.URI, "text": text}})
			} else {
				var cs []map[string]any
				for _, tx := range op.Texts {
					cs = append(cs, map[string]any{"text": tx})
				}
				r = lspCall(&st, "textDocument/didChange", map[string]any{"textDocument": map[string]any{"uri": op.URI, "version": i}, "contentChanges": cs})
				changes++
			}
			if r.Panic != "" {
				if analysisSurvives(text, 0, 0) {
					return v.Failf("server-crash", "step %d (%s %s): the server panicked although the analysis of the text %q does not: %s", i, op.Kind, op.URI, text, firstLines(r.Panic, 12))
				}
				v.Skipped = "server panic on this text (C18 owns crashes)"
				return v
			}
			latest[op.URI] = text
			_, fr := fresh(op.URI, text)
			if fr.Panic != "" || len(fr.Notifs) > 1 {
				v.Skipped = "server panic on this text (C18 owns crashes)"
				return v
			}
			if len(fr.Notifs) == 0 {
				// a server that publishes nothing for a first open: the client holds the empty set
				fr.Notifs = []string{"textDocument/publishDiagnostics uri=" + op.URI + " []"}
			}
			// what the client holds for a document is the last set published for it; after an
			// open or a change it must be what a fresh analysis of the latest text publishes.
			// (Not every notification has to be followed by a publication - a server may skip
			// one that would repeat what the client already has - and a server may publish for
			// other documents too, as long as each set is right for its document.)
			for _, n := range r.Notifs {
				u := notifURI(n)
				text2, known := latest[u]
				if !known {
					return v.Failf("notification-uri", "step %d (%s %s): diagnostics published for a document that was never opened: %s", i, op.Kind, op.URI, n)
				}
				want := fr.Notifs[0]
				if u != op.URI {
					_, fr2 := fresh(u, text2)
					if fr2.Panic != "" || len(fr2.Notifs) > 1 {
						v.Skipped = "server panic on this text (C18 owns crashes)"
						return v
					}
					want = "textDocument/publishDiagnostics uri=" + u + " []"
					if len(fr2.Notifs) == 1 {
						want = fr2.Notifs[0]
					}
				}
				if n != want {
					return v.Failf("stale-diagnostics", "step %d (%s %s): published %s\na fresh analysis of the latest text of that document publishes %s", i, op.Kind, op.URI, n, want)
				}
				view[u] = n
			}
			have, ok := view[op.URI]
			if !ok {
				have = "textDocument/publishDiagnostics uri=" + op.URI + " []"
			}
			if have != fr.Notifs[0] {
				return v.Failf("stale-diagnostics", "step %d (%s %s): %d notification(s) published; the client is left with %s\na fresh analysis of the latest text publishes %s\ntext: %q", i, op.Kind, op.URI, len(r.Notifs), have, fr.Notifs[0], text)
			}
			// and, independently of the server, what the analysis of the text reports
			if msg, ok := heldMatchesLibrary(have, text); !ok {
				return v.Failf("diagnostics-content", "step %d (%s %s): %s\ntext: %q", i, op.Kind, op.URI, msg, text)
			}
		case "hover", "definition", "symbols":
			method := map[string]string{"hover": "textDocument/hover", "definition": "textDocument/definition", "symbols": "textDocument/documentSymbol"}[op.Kind]
			var params map[string]any
			if op.Kind == "symbols" {
				params = docParams(op.URI)
			} else {
				params = posParams(op.URI, op.Line, op.Char)
			}
			text, isOpen := latest[op.URI]
			if !isOpen {
				v.HarnessError = "history requests a document that is not open"
				return v
			}
			r := lspCall(&st, method, params)
			fs, _ := fresh(op.URI, text)
			fr := lspCall(fs, method, params)
			if r.Panic != "" || fr.Panic != "" {
				if analysisSurvives(text, op.Line, op.Char) {
					return v.Failf("server-crash", "step %d (%s %s at %d:%d): the server panicked although the analysis of the text %q does not: %s", i, op.Kind, op.URI, op.Line, op.Char, text, firstLines(r.Panic+fr.Panic, 12))
				}
				v.Skipped = "server panic (C18 owns crashes)"
				return v
			}
			if len(r.Notifs) != 0 {
				return v.Failf("spurious-notification", "step %d (%s): a request published %v", i, op.Kind, r.Notifs)
			}
			if r.Response != fr.Response {
				return v.Failf("stale-response", "step %d (%s %s at %d:%d): answered %s\na fresh analysis of the document's latest text answers %s\nlatest text: %q", i, op.Kind, op.URI, op.Line, op.Char, r.Response, fr.Response, text)
			}
			if len(latest) >= 2 && changes >= 1 {
				v.NonTrivial = true
			}
			if r.Response != "null" {
				v.Label("answer:non-null")
			}
		default:
			v.HarnessError = "unknown op " + op.Kind
			return v
		}
	}
	return v
}

// ---------------------------------------------------------------- C19N navigation

type C19NCase struct {
	Script *gen.Script `json:"script"`
	Seps   []string    `json:"seps"`
	URI    string      `json:"uri"`
}

func (c *C19NCase) Display() any {
	return map[string]any{"text": gen.Print(c.Script.Clone(), &gen.ListLayout{Seps: c.Seps}).Text, "uri": c.URI}
}

type navTarget struct {
	span   gen.Span
	kind   string // "var" | "fn"
	name   string
	typ    string
	decl   gen.Span
	nested bool
}

func within(sp gen.Span, l, c int) (inside bool, atEnd bool) {
	if l != sp.SL || sp.SL != sp.EL {
		return false, false
	}
	if c >= sp.SC && c < sp.EC {
		return true, false
	}
	return false, c == sp.EC
}

func checkC19N(cc any) *ev.Verdict {
	c := cc.(*C19NCase)
	v := &ev.Verdict{}
	inflight(c)
	s := c.Script.Clone()
	p := gen.Print(s, &gen.ListLayout{Seps: c.Seps})
	if !p.LexMatches() {
		v.Skipped = "layout does not preserve the token stream"
		return v
	}
	decls := map[string]gen.VarDecl{}
	for _, d := range s.Vars {
		if _, dup := decls[d.Name]; dup {
			v.Skipped = "duplicate declaration (not in this sub-domain)"
			return v
		}
		decls[d.Name] = d
	}
	var targets []navTarget
	addVar := func(name string, sp *gen.Span, nested bool) {
		d, ok := decls[name]
		if !ok || sp == nil {
			return
		}
		targets = append(targets, navTarget{span: *sp, kind: "var", name: name, typ: d.Type, decl: *d.NameSpan, nested: nested})
	}
	var we func(e *gen.Expr, nested bool)
	we = func(e *gen.Expr, nested bool) {
		if e == nil {
			return
		}
		if e.Kind == gen.EVar {
			addVar(e.Text, e.Span, nested)
		}
		we(e.L, true)
		we(e.R, true)
	}
	var ws func(x *gen.Src, depth int)
	ws = func(x *gen.Src, depth int) {
		if x == nil {
			return
		}
		we(x.Addr, depth > 0)
		we(x.Bound, true)
		we(x.Cap, true)
		for _, y := range x.Subs {
			ws(y, depth+1)
		}
		for i := range x.Items {
			if x.Items[i].Portion.Kind == gen.AVar {
				addVar(x.Items[i].Portion.Text, x.Items[i].Portion.Span, true)
			}
			ws(x.Items[i].From, depth+1)
		}
		ws(x.From, depth+1)
	}
	var wd func(x *gen.Dst, depth int)
	wk := func(k *gen.KOD, depth int) {
		if k != nil && !k.Kept {
			wd(k.Dst, depth)
		}
	}
	wd = func(x *gen.Dst, depth int) {
		if x == nil {
			return
		}
		we(x.Addr, depth > 0)
		for i := range x.Clauses {
			we(x.Clauses[i].Cap, true)
			wk(&x.Clauses[i].To, depth+1)
		}
		wk(x.Remaining, depth+1)
		for i := range x.Items {
			if x.Items[i].Portion.Kind == gen.AVar {
				addVar(x.Items[i].Portion.Text, x.Items[i].Portion.Span, true)
			}
			wk(&x.Items[i].To, depth+1)
		}
	}
	builtinStmt := map[string]bool{"set_tx_meta": true, "set_account_meta": true}
	builtinOrigin := map[string]bool{"meta": true, "balance": true, "overdraft": true}
	for _, d := range s.Vars {
		if d.Origin != nil {
			if builtinOrigin[d.Origin.Fn] {
				targets = append(targets, navTarget{span: *d.Origin.NameSpan, kind: "fn", name: d.Origin.Fn})
			}
			for _, a := range d.Origin.Args {
				we(a, true)
			}
		}
	}
	for _, st := range s.Stmts {
		we(st.Sent, false)
		ws(st.Src, 0)
		wd(st.Dst, 0)
		we(st.SaveFrom, false)
		if st.Call != nil {
			if builtinStmt[st.Call.Fn] {
				targets = append(targets, navTarget{span: *st.Call.NameSpan, kind: "fn", name: st.Call.Fn})
			}
			for _, a := range st.Call.Args {
				we(a, true)
			}
		}
	}
	state := verifapi.LspInitialState()
	if r := lspCall(&state, "textDocument/didOpen", map[string]any{"textDocument": map[string]any{"uri": c.URI, "text": p.Text}}); r.Panic != "" {
		if analysisSurvives(p.Text, 0, 0) {
			return v.Failf("server-crash", "didOpen: the server panicked although the analysis of the text %q does not: %s", p.Text, firstLines(r.Panic, 12))
		}
		v.Skipped = "server panic (C18 owns crashes)"
		return v
	}
	lines := strings.Split(p.Text, "\n")
	for li := 0; li <= len(lines); li++ {
		n := 0
		if li < len(lines) {
			n = lex.RuneLen(lines[li])
		}
		for ch := 0; ch <= n+1; ch++ {
			var hit *navTarget
			atEnd := false
			for i := range targets {
				in, end := within(targets[i].span, li, ch)
				if in {
					hit = &targets[i]
				}
				if end {
					atEnd = true
				}
			}
			h := lspCall(&state, "textDocument/hover", posParams(c.URI, li, ch))
			d := lspCall(&state, "textDocument/definition", posParams(c.URI, li, ch))
			if h.Panic != "" || d.Panic != "" {
				if analysisSurvives(p.Text, li, ch) {
					return v.Failf("server-crash", "hover / definition at %d:%d: the server panicked although the analysis of the text %q does not: %s", li, ch, p.Text, firstLines(h.Panic+d.Panic, 12))
				}
				v.Skipped = "server panic (C18 owns crashes)"
				return v
			}
			where := fmt.Sprintf("at %d:%d of %q", li, ch, p.Text)
			if hit == nil {
				if atEnd {
					continue // position == end of a token: accepted either way
				}
				if h.Response != "null" || d.Response != "null" {
					return v.Failf("nav-spurious", "%s there is neither a variable use nor a built-in function name, but hover answers %s and definition %s", where, h.Response, d.Response)
				}
				continue
			}
			var hv struct {
				Contents struct{ Value string } `json:"contents"`
				Range    struct {
					Start, End struct{ Line, Character int }
				} `json:"range"`
			}
			if h.Response == "null" || json.Unmarshal([]byte(h.Response), &hv) != nil {
				return v.Failf("nav-missing-hover", "%s is inside %s `%s` but hover answers %s", where, hit.kind, hit.name, h.Response)
			}
			gotRange := gen.Span{SL: hv.Range.Start.Line, SC: hv.Range.Start.Character, EL: hv.Range.End.Line, EC: hv.Range.End.Character}
			if gotRange != hit.span {
				return v.Failf("nav-range", "%s hover range %v, the token spans %v", where, gotRange, hit.span)
			}
			if hit.kind == "var" {
				if !strings.Contains(hv.Contents.Value, "$"+hit.name) || !strings.Contains(hv.Contents.Value, hit.typ) {
					return v.Failf("nav-hover-content", "%s is a use of $%s, declared %s, but hover says %q", where, hit.name, hit.typ, hv.Contents.Value)
				}
				var loc struct {
					URI   string `json:"uri"`
					Range struct {
						Start, End struct{ Line, Character int }
					} `json:"range"`
				}
				if d.Response == "null" || json.Unmarshal([]byte(d.Response), &loc) != nil {
					return v.Failf("nav-missing-definition", "%s is a use of $%s but definition answers %s", where, hit.name, d.Response)
				}
				gotDecl := gen.Span{SL: loc.Range.Start.Line, SC: loc.Range.Start.Character, EL: loc.Range.End.Line, EC: loc.Range.End.Character}
				if loc.URI != c.URI || gotDecl != hit.decl {
					return v.Failf("nav-definition", "%s is a use of $%s declared at %v in %s, but definition answers %s", where, hit.name, hit.decl, c.URI, d.Response)
				}
				if hit.nested {
					v.NonTrivial = true
				}
			} else {
				if !strings.Contains(hv.Contents.Value, hit.name) {
					return v.Failf("nav-hover-content", "%s is the built-in function %s but hover says %q", where, hit.name, hv.Contents.Value)
				}
				if d.Response != "null" {
					return v.Failf("nav-definition", "%s is a built-in function name but definition answers %s", where, d.Response)
				}
			}
		}
	}
	return v
}
