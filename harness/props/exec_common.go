package props

import (
	"pgregory.net/rapid"
	"strings"

	"verifharness/ev"
	"verifharness/gen"
	"verifharness/hx"
)

// Generators are kept apart from ev.Prop so that ev does not depend on rapid.
var Generators = map[string]func(t *rapid.T, tier string) any{}

func newExecCase() any { return &gen.ExecCase{} }

func scriptLabels(ec *gen.ExecCase, v *ev.Verdict) {
	for _, f := range ec.Script.Features() {
		v.Label("has:" + f)
	}
	if ec.Warm != nil {
		v.Label("warm-up")
	}
	for _, d := range ec.Script.Vars {
		if val, ok := ec.Vars[d.Name]; ok && (d.Type == "number" || d.Type == "monetary") {
			digits := val
			if i := strings.LastIndexByte(val, ' '); i >= 0 {
				digits = val[i+1:]
			}
			digits = strings.TrimPrefix(digits, "-")
			if len(digits) > 1 && digits[0] == '0' {
				v.Label("zero-padded-variable")
				break
			}
		}
	}
}

func outcomeLabel(r hx.Real, v *ev.Verdict) {
	switch {
	case r.Panic != "":
		v.Label("outcome:panic")
	case r.ParseErrors > 0:
		v.Label("outcome:parse-error")
	case r.ErrClass != "":
		v.Label("outcome:error:" + r.ErrClass)
	case len(r.Postings) == 0:
		v.Label("outcome:ok-empty")
	default:
		v.Label("outcome:ok-postings")
	}
}

func hasFeature(ec *gen.ExecCase, names ...string) bool {
	fs := ec.Script.Features()
	for _, f := range fs {
		for _, n := range names {
			if f == n {
				return true
			}
		}
	}
	return false
}

func anyNegativeBalance(ec *gen.ExecCase) bool {
	for _, m := range ec.Balances {
		for _, v := range m {
			if len(v) > 0 && v[0] == '-' {
				return true
			}
		}
	}
	return false
}

func countSends(ec *gen.ExecCase) int {
	n := 0
	for _, s := range ec.Script.Stmts {
		if s.Kind == gen.StSend {
			n++
		}
	}
	return n
}
