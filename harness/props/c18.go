package props

import (
	"encoding/json"
	"fmt"
	"runtime/debug"
	"sort"
	"strings"
	"unicode/utf8"

	"pgregory.net/rapid"

	"github.com/formancehq/numscript/verifapi"

	"verifharness/ev"
	"verifharness/gen"
	"verifharness/lex"
)

func init() {
	ev.Register(&ev.Prop{
		ID:        "C18",
		Rule:      "texts: every token prefix of the corpus scripts (typing sequences, exhaustive), and generated texts as in C14 (corpus and grammar-complete scripts under random layouts, mutated by truncation, token deletion/duplication/swap/insertion/replacement, hostile splices, byte deletions, token soups, double edits) x every cursor position (every code-point offset of every line, plus one past the end of each line and one line past the end); oracle: no panic from CheckSource, GetSymbols, HoverOn, GotoDefinition; every diagnostic starts inside the text or at its end and does not end before it starts; two analyses of the same text give the same multiset of (range, severity, message) and the same set of symbols; non-trivial = the text has >= 1 parse error or >= 1 checker diagnostic",
		New:       func() any { return &TextCase{} },
		Check:     checkC18,
		Enumerate: enumC18,
	})
	Generators["C18"] = func(t *rapid.T, tier string) any {
		text, toks := baseText(t, tier)
		out, note := mutateText(t, text, toks)
		if gen.Chance(t, "c18.tall", 30) {
			// tall texts are rare (1 %) here: every cursor position is visited
			out, note = tallText(t, out, note)
		}
		return &TextCase{Bytes: []byte(out), Note: note}
	}
}

func enumC18(tier string, shard, nshards int, visit func(any) bool) (string, bool) {
	seeds := loadSeeds()
	idx := 0
	stride := 1
	if tier != "thorough" {
		stride = 2 // quick: every second token prefix
	}
	for _, s := range seeds {
		r := lex.Lex(s)
		for i := 0; i <= len(r.Tokens); i += stride {
			idx++
			if idx%nshards != shard {
				continue
			}
			end := len(s)
			if i < len(r.Tokens) {
				end = r.Tokens[i].Off
			}
			if !visit(&TextCase{Bytes: []byte(s[:end]), Note: "typing"}) {
				return "", false
			}
		}
	}
	if stride == 1 {
		return fmt.Sprintf("every token prefix of the %d corpus scripts x every cursor position", len(seeds)), true
	}
	return fmt.Sprintf("every second token prefix of the %d corpus scripts x every cursor position", len(seeds)), true
}

func diagKey(d verifapi.Diagnostic) string {
	return fmt.Sprintf("%d:%d-%d:%d|%d|%s", d.Range.Start.Line, d.Range.Start.Character, d.Range.End.Line, d.Range.End.Character, d.Kind.Severity(), d.Kind.Message())
}

type analysis struct {
	panic   string
	where   string
	diags   []string
	symbols []string
	raw     []verifapi.Diagnostic
	res     verifapi.CheckResult
}

func analyse(text string) (out analysis) {
	out.where = "CheckSource"
	defer func() {
		if r := recover(); r != nil {
			out.panic = fmt.Sprintf("%v\n%s", r, debug.Stack())
		}
	}()
	res := verifapi.CheckSource(text)
	out.res = res
	out.raw = res.Diagnostics
	out.where = "Diagnostic.Message"
	for _, d := range res.Diagnostics {
		out.diags = append(out.diags, diagKey(d))
	}
	sort.Strings(out.diags)
	out.where = "GetSymbols"
	for _, s := range res.GetSymbols() {
		out.symbols = append(out.symbols, fmt.Sprintf("%s|%s|%d:%d-%d:%d|%d:%d-%d:%d", s.Name, s.Detail, s.Range.Start.Line, s.Range.Start.Character, s.Range.End.Line, s.Range.End.Character,
			s.SelectionRange.Start.Line, s.SelectionRange.Start.Character, s.SelectionRange.End.Line, s.SelectionRange.End.Character))
	}
	sort.Strings(out.symbols)
	out.where = ""
	return
}

func navigate(res verifapi.CheckResult, line, char int) (pan string) {
	defer func() {
		if r := recover(); r != nil {
			pan = fmt.Sprintf("%v\n%s", r, debug.Stack())
		}
	}()
	pos := verifapi.Position{Line: line, Character: char}
	verifapi.HoverOn(res.Program, pos)
	verifapi.GotoDefinition(res.Program, pos, res)
	return ""
}

func checkC18(cc any) *ev.Verdict {
	c := cc.(*TextCase)
	v := &ev.Verdict{}
	text := string(c.Bytes)
	inflight(c)
	if c.Note != "" {
		v.Label("edit:" + strings.SplitN(c.Note, ":", 2)[0])
	}
	a := analyse(text)
	if a.panic != "" {
		return v.Failf(crashClass(a.panic), "%s panicked on %q: %s", a.where, text, firstLines(a.panic, 14))
	}
	for i, d := range a.raw {
		if !positionInside(text, d.Range.Start.Line, d.Range.Start.Character) {
			return v.Failf("position", "diagnostic %d (%s) starts at %d:%d, outside the text %q", i, d.Kind.Message(), d.Range.Start.Line, d.Range.Start.Character, text)
		}
		s, e := d.Range.Start, d.Range.End
		if e.Line < s.Line || (e.Line == s.Line && e.Character < s.Character) {
			return v.Failf("inverted-range", "diagnostic %d (%s) ends (%d:%d) before it starts (%d:%d) in %q", i, d.Kind.Message(), e.Line, e.Character, s.Line, s.Character, text)
		}
	}
	b := analyse(text)
	if b.panic != "" {
		return v.Failf(crashClass(b.panic), "second analysis: %s panicked on %q: %s", b.where, text, firstLines(b.panic, 14))
	}
	if strings.Join(a.diags, "\n") != strings.Join(b.diags, "\n") {
		return v.Failf("nondeterministic-diagnostics", "two analyses of %q give different diagnostics:\n%v\n%v", text, a.diags, b.diags)
	}
	if strings.Join(a.symbols, "\n") != strings.Join(b.symbols, "\n") {
		return v.Failf("nondeterministic-symbols", "two analyses of %q give different symbols:\n%v\n%v", text, a.symbols, b.symbols)
	}
	// every cursor position
	lines := strings.Split(text, "\n")
	npos := 0
	for li := 0; li <= len(lines); li++ {
		n := 0
		if li < len(lines) {
			n = lex.RuneLen(lines[li])
		}
		for ch := 0; ch <= n+1; ch++ {
			npos++
			if npos > 4000 && ch%7 != 0 {
				continue
			}
			if pan := navigate(a.res, li, ch); pan != "" {
				return v.Failf(crashClass(pan), "hover / go-to-definition at %d:%d panicked on %q: %s", li, ch, text, firstLines(pan, 14))
			}
		}
	}
	// the same questions asked through the language server's own handlers (a quarter of the
	// texts, at the start and in the middle of up to 60 tokens): the handlers add work of their
	// own (document store, conversion of positions, excerpts of the text) that must not crash either
	if len(text)%4 == 0 {
		v.Label("lsp-level")
		const uri = "file:///c18.num"
		st := verifapi.LspInitialState()
		if r := lspCall(&st, "textDocument/didOpen", map[string]any{"textDocument": map[string]any{"uri": uri, "text": text}}); r.Panic != "" {
			return v.Failf(crashClass(r.Panic), "the language server panicked on didOpen of %q: %s", text, firstLines(r.Panic, 14))
		}
		ask := func(method string, params any) (pan string) {
			defer func() {
				if r := recover(); r != nil {
					pan = fmt.Sprintf("%v\n%s", r, debug.Stack())
				}
			}()
			pj, _ := json.Marshal(params)
			verifapi.LspHandle(&st, method, pj)
			return ""
		}
		if pan := ask("textDocument/documentSymbol", docParams(uri)); pan != "" {
			return v.Failf(crashClass(pan), "the language server panicked on documentSymbol of %q: %s", text, firstLines(pan, 14))
		}
		toks := lex.Lex(text).Tokens
		line, col, off := 0, 0, 0
		for i, tk := range toks {
			if i >= 60 {
				break
			}
			for off < tk.Off && off < len(text) {
				r, size := utf8.DecodeRuneInString(text[off:])
				_ = r
				if text[off] == '\n' {
					line++
					col = 0
				} else {
					col++
				}
				off += size
			}
			for _, dc := range []int{0, 1, lex.RuneLen(tk.Text) / 2} {
				for _, method := range []string{"textDocument/hover", "textDocument/definition"} {
					if pan := ask(method, posParams(uri, line, col+dc)); pan != "" {
						return v.Failf(crashClass(pan), "the language server panicked on %s at %d:%d of %q: %s", method, line, col+dc, text, firstLines(pan, 14))
					}
				}
			}
		}
	}
	v.NonTrivial = len(a.raw) > 0
	if len(a.raw) > 0 {
		v.Label("has-diagnostics")
	}
	return v
}

// crashClass tags a panic by its origin so that known crash sites can be told apart.
func crashClass(p string) string {
	switch {
	case strings.Contains(p, "division by zero"):
		return "panic-division-by-zero"
	case strings.Contains(p, "Invalid number"):
		return "panic-int64-literal"
	}
	return "panic"
}

var _ = gen.Chance
