package props

import (
	"fmt"
	"math/big"
	"sort"
	"strings"

	"pgregory.net/rapid"

	"github.com/formancehq/numscript/verifapi"

	"verifharness/doubles"
	"verifharness/ev"
	"verifharness/gen"
	"verifharness/hx"
	"verifharness/model"
)

// ---------------------------------------------------------------- C06

// C06Case: one allotment, on one side of a send, with one total.
type C06Case struct {
	Portions []string `json:"portions"` // literal texts; "remaining" for the remaining clause
	AsVars   []bool   `json:"asvars"`   // clause i is written through a portion variable
	Side     string   `json:"side"`     // "dst" | "src"
	Total    string   `json:"total"`
	TotalVar bool     `json:"totalvar"` // total passed through a monetary variable
	Twice    bool     `json:"twice"`    // the send statement is written twice (every variable is then used twice)
	// Warm: the parsed script is first executed once with other values of its variables
	// (portion variables rotated, or zero next to a `remaining` clause; another total)
	Warm bool `json:"warm,omitempty"`
	// Decoy (destination side): the allotment under test is the `remaining` branch of an
	// ordered destination whose first clause (cap 0, so it receives nothing) holds other
	// allotments: 1 = directly, 2 = one level deeper, behind a clause that absorbs everything
	Decoy int `json:"decoy,omitempty"`
	// SameVar: clauses written through variables that carry the same portion text share one
	// variable (the same variable in several clauses of one allotment)
	SameVar bool `json:"samevar,omitempty"`
}

func (c *C06Case) build() (*gen.ExecCase, []string) {
	ec := &gen.ExecCase{Script: &gen.Script{}, Vars: map[string]string{}, Balances: map[string]map[string]string{}}
	var allots []gen.Allot
	for i, p := range c.Portions {
		switch {
		case p == "remaining":
			allots = append(allots, gen.Allot{Kind: gen.ARemaining})
		case i < len(c.AsVars) && c.AsVars[i]:
			name := fmt.Sprintf("p%d", i)
			shared := false
			if c.SameVar {
				for j := 0; j < i; j++ {
					if j < len(c.AsVars) && c.AsVars[j] && c.Portions[j] == p {
						name, shared = fmt.Sprintf("p%d", j), true
						break
					}
				}
			}
			if !shared {
				ec.Script.Vars = append(ec.Script.Vars, gen.VarDecl{Type: "portion", Name: name})
				ec.Vars[name] = p
			}
			allots = append(allots, gen.Allot{Kind: gen.AVar, Text: name})
		default:
			allots = append(allots, gen.Allot{Kind: gen.ALit, Text: p})
		}
	}
	var sent *gen.Expr
	if c.TotalVar {
		ec.Script.Vars = append(ec.Script.Vars, gen.VarDecl{Type: "monetary", Name: "total"})
		ec.Vars["total"] = "COIN " + c.Total
		sent = gen.Var("total")
	} else {
		n, _ := new(big.Int).SetString(c.Total, 10)
		sent = gen.Mon(gen.Asset("COIN"), gen.Num(n))
	}
	st := &gen.Stmt{Kind: gen.StSend, Sent: sent}
	var names []string
	if c.Side == "dst" {
		st.Src = &gen.Src{Kind: gen.SAcct, Addr: gen.Acct("world")}
		d := &gen.Dst{Kind: gen.DAllot}
		for i, a := range allots {
			name := fmt.Sprintf("d%d", i)
			names = append(names, name)
			d.Items = append(d.Items, gen.DstItem{Portion: a, To: gen.KOD{Dst: &gen.Dst{Kind: gen.DAcct, Addr: gen.Acct(name)}}})
		}
		st.Dst = d
		// (with nothing to split, the branch under test would receive nothing and need not be
		// evaluated at all: the wrapper is left out then)
		if c.Decoy != 0 && strings.Trim(c.Total, "0") != "" {
			acct := func(n string) gen.KOD { return gen.KOD{Dst: &gen.Dst{Kind: gen.DAcct, Addr: gen.Acct(n)}} }
			decoy := &gen.Dst{Kind: gen.DAllot, Items: []gen.DstItem{
				{Portion: gen.Allot{Kind: gen.ALit, Text: "1/4"}, To: acct("q0")},
				{Portion: gen.Allot{Kind: gen.ALit, Text: "3/4"}, To: acct("q1")}}}
			zero := gen.Mon(gen.Asset("COIN"), gen.NumI(0))
			first := gen.KOD{Dst: decoy}
			if c.Decoy == 2 {
				rem := gen.KOD{Dst: decoy}
				first = gen.KOD{Dst: &gen.Dst{Kind: gen.DInorder,
					Clauses:   []gen.DstClause{{Cap: gen.Mon(gen.Asset("COIN"), gen.NumI(1000000)), To: acct("q2")}},
					Remaining: &rem}}
			}
			rest := gen.KOD{Dst: d}
			st.Dst = &gen.Dst{Kind: gen.DInorder, Clauses: []gen.DstClause{{Cap: zero, To: first}}, Remaining: &rest}
		}
	} else {
		st.Dst = &gen.Dst{Kind: gen.DAcct, Addr: gen.Acct("world")}
		s := &gen.Src{Kind: gen.SAllot}
		for i, a := range allots {
			name := fmt.Sprintf("s%d", i)
			names = append(names, name)
			var from *gen.Src
			if i%2 == 0 {
				from = &gen.Src{Kind: gen.SOver, Addr: gen.Acct(name)}
			} else {
				from = &gen.Src{Kind: gen.SAcct, Addr: gen.Acct(name)}
				ec.Balances[name] = map[string]string{"COIN": "1" + strings.Repeat("0", 60)}
			}
			s.Items = append(s.Items, gen.SrcItem{Portion: a, From: from})
		}
		st.Src = s
	}
	ec.Script.Stmts = []*gen.Stmt{st}
	if c.Twice {
		ec.Script.Stmts = append(ec.Script.Stmts, st)
	}
	if c.Warm && len(ec.Vars) > 0 {
		ec.Warm = map[string]string{}
		hasRemaining := false
		var pv []string
		for i, p := range c.Portions {
			if p == "remaining" {
				hasRemaining = true
			} else if i < len(c.AsVars) && c.AsVars[i] {
				if _, declared := ec.Vars[fmt.Sprintf("p%d", i)]; declared {
					pv = append(pv, fmt.Sprintf("p%d", i))
				}
			}
		}
		for i, name := range pv {
			if hasRemaining {
				ec.Warm[name] = "0/1"
			} else {
				ec.Warm[name] = ec.Vars[pv[(i+1)%len(pv)]]
			}
		}
		if c.TotalVar {
			ec.Warm["total"] = "COIN 97"
		}
	}
	return ec, names
}

func (c *C06Case) Display() any {
	ec, _ := c.build()
	return map[string]any{"script": gen.PrintCanonical(ec.Script), "vars": ec.Vars}
}

func init() {
	ev.Register(&ev.Prop{
		ID:        "C06",
		Rule:      "(i) exhaustive: all portion vectors of length 2-4 with denominators 1..D summing to one (zeros allowed), each written as ratios, as percentages where exact, with the last clause as `remaining`, and through portion variables, x all totals 0..T, as destination (source @world) and as source (destination @world); (ii) generated: vectors up to length 8, denominators to 10^6, percentages with up to 6 decimals, totals to 10^40 through variables, and vectors whose sum is not one (must be rejected); oracle: independent big-rational arithmetic share_i = floor(p_i*x) + [i < x - sum floor], observed as credits per destination / debits per source; non-trivial = some p_i*x is not an integer, or a remaining clause, or a rejection",
		New:       func() any { return &C06Case{} },
		Check:     checkC06,
		Enumerate: enumC06,
	})
	Generators["C06"] = genC06
}

func compositions(total, k int, f func([]int)) {
	cur := make([]int, k)
	var rec func(i, left int)
	rec = func(i, left int) {
		if i == k-1 {
			cur[i] = left
			f(cur)
			return
		}
		for v := 0; v <= left; v++ {
			cur[i] = v
			rec(i+1, left-v)
		}
	}
	rec(0, total)
}

func enumC06(tier string, shard, nshards int, visit func(any) bool) (string, bool) {
	D, T, K := 5, 12, 3
	if tier == "thorough" {
		D, T, K = 10, 60, 4
	}
	what := fmt.Sprintf("portion vectors of length 2..%d over denominators 1..%d with sum 1 x spellings {ratio, percent, remaining-last, variables} x totals 0..%d x {destination, source}", K, D, T)
	idx := 0
	ok := true
	for k := 2; k <= K && ok; k++ {
		for d := 1; d <= D && ok; d++ {
			if k == 4 && d > 6 {
				continue
			}
			compositions(d, k, func(ws []int) {
				if !ok {
					return
				}
				for mode := 0; mode < 4 && ok; mode++ {
					ps := make([]string, k)
					asv := make([]bool, k)
					usable := true
					for i, w := range ws {
						switch mode {
						case 0:
							ps[i] = fmt.Sprintf("%d/%d", w, d)
						case 1:
							pt, exact := gen.PercentText(big.NewRat(int64(w), int64(d)))
							if !exact {
								usable = false
							}
							ps[i] = pt
						case 2:
							ps[i] = fmt.Sprintf("%d/%d", w, d)
							if i == k-1 {
								ps[i] = "remaining"
							}
						case 3:
							ps[i] = fmt.Sprintf("%d / %d", w, d)
							asv[i] = i%2 == 0
							if !asv[i] {
								ps[i] = fmt.Sprintf("%d/%d", w, d)
							}
						}
					}
					if !usable {
						continue
					}
					for _, side := range []string{"dst", "src"} {
						for x := 0; x <= T; x++ {
							idx++
							if idx%nshards != shard {
								continue
							}
							c := &C06Case{Portions: append([]string{}, ps...), AsVars: append([]bool{}, asv...), Side: side, Total: fmt.Sprint(x), Twice: mode == 3 && x%2 == 1, Warm: mode == 3 && x%3 == 0, SameVar: mode == 3 && x%2 == 0}
							if !visit(c) {
								ok = false
								return
							}
						}
					}
				}
			})
		}
	}
	return what, ok
}

func genC06(t *rapid.T, tier string) any {
	k := 2 + gen.Uniform(t, "k", 7)
	c := &C06Case{Side: gen.Pick(t, "side", []string{"dst", "src"}), AsVars: make([]bool, k)}
	ws := make([]*big.Int, k)
	var W *big.Int
	percent := gen.Chance(t, "percent", 45)
	dec := 0
	if gen.Chance(t, "bigden", 18) {
		// denominators around the 64-bit boundary and beyond; powers of ten are also written as percentages
		decs := []int{16, 17, 18, 20, 25}
		percent = gen.Chance(t, "bigden.percent", 50)
		if percent {
			dec = gen.Pick(t, "bigden.dec", decs)
			W = new(big.Int).Exp(big.NewInt(10), big.NewInt(int64(2+dec)), nil)
		} else {
			W = new(big.Int).Set(gen.Pick(t, "bigden.w", []*big.Int{
				new(big.Int).Lsh(big.NewInt(1), 63), new(big.Int).Sub(new(big.Int).Lsh(big.NewInt(1), 64), big.NewInt(1)),
				new(big.Int).Lsh(big.NewInt(1), 64), new(big.Int).Exp(big.NewInt(10), big.NewInt(19), nil),
				new(big.Int).Sub(new(big.Int).Lsh(big.NewInt(1), 63), big.NewInt(1)), new(big.Int).Exp(big.NewInt(10), big.NewInt(30), nil)}))
		}
		rest := new(big.Int).Set(W)
		for i := 0; i < k-1; i++ {
			ws[i] = big.NewInt(int64(gen.Uniform(t, "bigden.small", 1000)))
			rest.Sub(rest, ws[i])
		}
		ws[k-1] = rest
		// put the big part at a random place
		j := gen.Uniform(t, "bigden.at", k)
		ws[j], ws[k-1] = ws[k-1], ws[j]
	} else if percent {
		dec = gen.Uniform(t, "dec", 7)
		W = new(big.Int).Exp(big.NewInt(10), big.NewInt(int64(2+dec)), nil)
		cuts := make([]int64, k-1)
		for i := range cuts {
			cuts[i] = int64(gen.Uniform(t, "cut", int(W.Int64())+1))
		}
		sort.Slice(cuts, func(i, j int) bool { return cuts[i] < cuts[j] })
		prev := int64(0)
		for i := 0; i < k-1; i++ {
			ws[i] = big.NewInt(cuts[i] - prev)
			prev = cuts[i]
		}
		ws[k-1] = big.NewInt(W.Int64() - prev)
	} else {
		W = new(big.Int)
		maxw := gen.Pick(t, "maxw", []int{3, 10, 1000, 1000000})
		for i := range ws {
			ws[i] = big.NewInt(int64(gen.Uniform(t, "w", maxw+1)))
			W.Add(W, ws[i])
		}
		if W.Sign() == 0 {
			ws[0] = big.NewInt(1)
			W = big.NewInt(1)
		}
	}
	// fault: sum != 1
	fault := gen.Chance(t, "fault", 12)
	remaining := !fault && gen.Chance(t, "remaining", 30)
	if fault {
		i := gen.Uniform(t, "faulti", k)
		if ws[i].Sign() > 0 && gen.Chance(t, "faultdown", 50) {
			ws[i] = new(big.Int).Sub(ws[i], big.NewInt(1))
		} else {
			ws[i] = new(big.Int).Add(ws[i], big.NewInt(1))
		}
		// a portion may not exceed one
		if ws[i].Cmp(W) > 0 {
			ws[i] = new(big.Int).Set(W)
			j := (i + 1) % k
			ws[j] = new(big.Int).Add(ws[j], big.NewInt(1))
			if ws[j].Cmp(W) > 0 {
				ws[j] = new(big.Int).Set(W)
			}
		}
	}
	for i := range ws {
		if remaining && i == k-1 {
			c.Portions = append(c.Portions, "remaining")
			continue
		}
		c.AsVars[i] = gen.Chance(t, "asvar", 25)
		if percent {
			s := ws[i].String()
			if dec > 0 {
				for len(s) <= dec {
					s = "0" + s
				}
				s = s[:len(s)-dec] + "." + s[len(s)-dec:]
			}
			if gen.Chance(t, "lead0", 15) {
				s = "0" + s
			}
			c.Portions = append(c.Portions, s+"%")
		} else {
			sp := gen.Pick(t, "sp", []string{"%s/%s", "%s / %s", "%s /%s", "0%s/%s"})
			c.Portions = append(c.Portions, fmt.Sprintf(sp, ws[i], W))
		}
	}
	switch gen.Uniform(t, "totalcls", 4) {
	case 0:
		c.Total = fmt.Sprint(gen.Uniform(t, "tsmall", 40))
	case 1:
		c.Total = fmt.Sprint(gen.Uniform(t, "tmid", 1000000))
	case 2:
		n := new(big.Int).Lsh(big.NewInt(1), 64)
		n.Add(n, big.NewInt(int64(gen.Uniform(t, "tbig", 1000))-500))
		c.Total = n.String()
		c.TotalVar = true
	default:
		digits := 20 + gen.Uniform(t, "tdig", 21)
		s := fmt.Sprint(1 + gen.Uniform(t, "td0", 9))
		for i := 1; i < digits; i++ {
			s += fmt.Sprint(gen.Uniform(t, "td", 10))
		}
		c.Total = s
		c.TotalVar = true
	}
	if !c.TotalVar {
		c.TotalVar = gen.Chance(t, "totalvar", 20)
	}
	c.Twice = gen.Chance(t, "twice", 25)
	c.Warm = gen.Chance(t, "warm", 30)
	c.SameVar = gen.Chance(t, "samevar", 40)
	if gen.Chance(t, "decoy", 25) {
		c.Decoy = 1 + gen.Uniform(t, "decoy.kind", 2)
	}
	return c
}

func checkC06(cc any) *ev.Verdict {
	c := cc.(*C06Case)
	v := &ev.Verdict{}
	ec, names := c.build()
	x, ok := new(big.Int).SetString(c.Total, 10)
	if !ok {
		v.HarnessError = "bad total " + c.Total
		return v
	}
	// independent arithmetic
	one := big.NewRat(1, 1)
	sum := new(big.Rat)
	rats := make([]*big.Rat, len(c.Portions))
	rem := -1
	for i, p := range c.Portions {
		if p == "remaining" {
			rem = i
			continue
		}
		r, ok := model.PortionValue(p)
		if !ok {
			v.HarnessError = "bad portion text " + p
			return v
		}
		rats[i] = r
		sum.Add(sum, r)
	}
	expectReject := false
	if rem >= 0 {
		if sum.Cmp(one) > 0 {
			v.Skipped = "remaining with the other portions above one (outside the property's domain)"
			return v
		}
		rats[rem] = new(big.Rat).Sub(one, sum)
		v.Label("remaining")
	} else if sum.Cmp(one) != 0 {
		expectReject = true
	}
	v.Label("side:" + c.Side)
	r, _ := hx.Run(ec, doubles.Superset)
	outcomeLabel(r, v)
	if r.Panic != "" || r.ParseErrors > 0 {
		v.Skipped = "panic or parse error (C12/C13/C14 own these)"
		return v
	}
	if expectReject {
		v.NonTrivial = true
		v.Label("expect-reject")
		if r.OK() {
			return v.Failf("sum-accepted", "portions add up to %s, not one, but the split was accepted: %s", sum.RatString(), r.Summary())
		}
		if r.ErrClass != model.EAllotmentSum {
			return v.Failf("sum-class", "portions add up to %s; expected an invalid-allotment-sum error, got %s", sum.RatString(), r.Summary())
		}
		return v
	}
	if !r.OK() {
		return v.Failf("rejected", "valid split of %s rejected: %s", c.Total, r.Summary())
	}
	shares := model.Shares(x, rats)
	tot := new(big.Int)
	want := map[string]*big.Int{}
	for i, s := range shares {
		want[names[i]] = s
		if c.Twice {
			want[names[i]] = new(big.Int).Lsh(s, 1)
		}
		tot.Add(tot, s)
		exact := new(big.Rat).Mul(rats[i], new(big.Rat).SetInt(x))
		if !exact.IsInt() {
			v.NonTrivial = true
		}
	}
	if rem >= 0 {
		v.NonTrivial = true
	}
	if tot.Cmp(x) != 0 {
		v.HarnessError = "reference shares do not add up"
		return v
	}
	var got map[string]*big.Int
	if c.Side == "dst" {
		got = hx.Credits(r.Postings)
	} else {
		got = hx.Debits(r.Postings)
	}
	delete(got, "world")
	if msg, ok := hx.EqualSums(got, want); !ok {
		return v.Failf("share", "split of %s by %v on the %s side: (real vs floor-and-leftover) %s; result %s", c.Total, c.Portions, c.Side, msg, r.Summary())
	}
	return v
}

// ---------------------------------------------------------------- C07

// C07Case: either a direct call of Reconcile (Direct) or a script inducing a chosen
// draw list and distribution list.
type C07Case struct {
	Direct    bool     `json:"direct"`
	Senders   []string `json:"senders"`   // "name:amount"
	Receivers []string `json:"receivers"` // "name:amount", name KEPT for kept
	// for scripts: the amount sent is the senders' total; what the caps do not absorb goes
	// to the remaining clause
	Remaining string `json:"remaining,omitempty"` // account or KEPT
}

func parsePart(s string) (string, int64) {
	i := strings.LastIndexByte(s, ':')
	var n int64
	fmt.Sscan(s[i+1:], &n)
	return s[:i], n
}

func (c *C07Case) Display() any {
	if c.Direct {
		return c
	}
	ec := c.script()
	return map[string]any{"script": gen.PrintCanonical(ec.Script), "balances": ec.Balances}
}

func (c *C07Case) script() *gen.ExecCase {
	ec := &gen.ExecCase{Script: &gen.Script{}, Balances: map[string]map[string]string{}}
	src := &gen.Src{Kind: gen.SInorder}
	total := int64(0)
	for _, s := range c.Senders {
		name, n := parsePart(s)
		total += n
		ec.Balances[name] = map[string]string{"USD": "100000"}
		src.Subs = append(src.Subs, &gen.Src{Kind: gen.SCapped, Cap: gen.Mon(gen.Asset("USD"), gen.NumI(n)), From: &gen.Src{Kind: gen.SAcct, Addr: gen.Acct(name)}})
	}
	kod := func(name string) gen.KOD {
		if name == "KEPT" {
			return gen.KOD{Kept: true}
		}
		return gen.KOD{Dst: &gen.Dst{Kind: gen.DAcct, Addr: gen.Acct(name)}}
	}
	dst := &gen.Dst{Kind: gen.DInorder}
	for _, r := range c.Receivers {
		name, n := parsePart(r)
		dst.Clauses = append(dst.Clauses, gen.DstClause{Cap: gen.Mon(gen.Asset("USD"), gen.NumI(n)), To: kod(name)})
	}
	rk := kod(c.Remaining)
	dst.Remaining = &rk
	ec.Script.Stmts = []*gen.Stmt{{Kind: gen.StSend, Sent: gen.Mon(gen.Asset("USD"), gen.NumI(total)), Src: src, Dst: dst}}
	return ec
}

func init() {
	ev.Register(&ev.Prop{
		ID:        "C07",
		Rule:      "(i) exhaustive, direct calls of interpreter.Reconcile: sender lists of length 1-3 over {a,b,c} and receiver lists of length 1-3 over {x,y,KEPT}, amounts 1..3 (thorough: 1..4, and length 4 with amounts 1..2), equal totals, positive amounts, fresh slices per call; (ii) generated scripts that induce a chosen draw list (max [A s_i] from rich accounts) and a chosen distribution list (max [A r_j] to accounts or kept, remaining), and free-form typed scripts; oracle: unit-by-unit first-come-first-served pairing, compared as source x destination flow matrix, kept never appears in a posting; non-trivial = some share is split across >= 2 postings, or kept spans a sender boundary",
		New:       func() any { return &C07Case{} },
		Check:     checkC07,
		Enumerate: enumC07,
	})
	Generators["C07"] = func(t *rapid.T, tier string) any {
		c := &C07Case{}
		ns := 1 + gen.Uniform(t, "ns", 5)
		nr := gen.Uniform(t, "nr", 6)
		for i := 0; i < ns; i++ {
			c.Senders = append(c.Senders, fmt.Sprintf("%s:%d", gen.Pick(t, "s", []string{"a", "b", "c"}), 1+gen.Uniform(t, "sa", 6)))
		}
		for i := 0; i < nr; i++ {
			c.Receivers = append(c.Receivers, fmt.Sprintf("%s:%d", gen.Pick(t, "r", []string{"x", "y", "z", "KEPT", "a"}), gen.Uniform(t, "ra", 8)))
		}
		c.Remaining = gen.Pick(t, "rem", []string{"x", "w", "KEPT"})
		return c
	}
	// the free-form part of C07 is a property of its own registration so that its cases are ExecCases
	ev.Register(&ev.Prop{ID: "C07F", Rule: "free-form typed scripts: flow matrix per statement = reference pairing", New: newExecCase, Check: checkC07Free})
	Generators["C07F"] = func(t *rapid.T, tier string) any {
		k := gen.DefaultKnobs()
		k.PKept = 25
		k.PWeirdAccount = 2
		k.PWorldFallback = 45
		k.PSave = 3
		k.PCall = 2
		k.MaxWidth = 5
		if gen.Chance(t, "c07f.aligned", 10) {
			tight := gen.Chance(t, "c07f.tight", 50)
			ec := gen.AlignedCase(t, tight)
			if tight || gen.Chance(t, "c07f.aligned.colliding", 30) {
				ec.Rename(gen.CollidingNames(1))
			}
			return ec
		}
		ec := gen.NewTG(t, k).Case()
		// segmented account names whose "source:destination" spellings coincide
		if gen.Chance(t, "c07f.colliding", 12) {
			ec.Rename(gen.CollidingNames(1))
		}
		return ec
	}
}

func enumParts(names []string, maxLen, maxAmt int, f func([]string)) {
	var rec func(cur []string)
	rec = func(cur []string) {
		if len(cur) > 0 {
			f(cur)
		}
		if len(cur) == maxLen {
			return
		}
		for _, n := range names {
			for a := 1; a <= maxAmt; a++ {
				rec(append(cur, fmt.Sprintf("%s:%d", n, a)))
			}
		}
	}
	rec(nil)
}

func total(parts []string) int64 {
	t := int64(0)
	for _, p := range parts {
		_, n := parsePart(p)
		t += n
	}
	return t
}

func enumC07(tier string, shard, nshards int, visit func(any) bool) (string, bool) {
	type scope struct {
		maxLen, maxAmt int
		senders, recvs []string
	}
	plainS, plainR := []string{"a", "b", "c"}, []string{"x", "y", "KEPT"}
	// segmented names: "o"+":"+"h:f" and "o:h"+":"+"f" spell the same text, and "o" is on both sides
	segS, segR := []string{"o", "o:h", "b"}, []string{"h:f", "f", "o", "KEPT"}
	scopes := []scope{{3, 3, plainS, plainR}, {3, 2, segS, segR}}
	if tier == "thorough" {
		scopes = []scope{{3, 4, plainS, plainR}, {4, 2, plainS, plainR}, {3, 3, segS, segR}, {4, 1, segS, segR}}
	}
	what := "direct Reconcile calls: "
	idx := 0
	for si, sc := range scopes {
		if si > 0 {
			what += "; "
		}
		what += fmt.Sprintf("lists of length 1..%d, amounts 1..%d, equal totals, senders %v receivers %v", sc.maxLen, sc.maxAmt, sc.senders, sc.recvs)
		byTotal := map[int64][][]string{}
		enumParts(sc.recvs, sc.maxLen, sc.maxAmt, func(r []string) {
			byTotal[total(r)] = append(byTotal[total(r)], append([]string{}, r...))
		})
		ok := true
		enumParts(sc.senders, sc.maxLen, sc.maxAmt, func(s []string) {
			if !ok {
				return
			}
			for _, r := range byTotal[total(s)] {
				idx++
				if idx%nshards != shard {
					continue
				}
				if !visit(&C07Case{Direct: true, Senders: append([]string{}, s...), Receivers: r}) {
					ok = false
					return
				}
			}
		})
		if !ok {
			return what, false
		}
	}
	return what, true
}

// unitFlows is the obviously-correct oracle: expand both lists to units and pair them in order.
func unitFlows(senders, receivers []string) (map[[2]string]*big.Int, bool, bool) {
	var su, ru []string
	for _, s := range senders {
		name, n := parsePart(s)
		for i := int64(0); i < n; i++ {
			su = append(su, name)
		}
	}
	split, keptSpans := false, false
	for _, r := range receivers {
		name, n := parsePart(r)
		start := len(ru)
		for i := int64(0); i < n; i++ {
			ru = append(ru, name)
		}
		// does this share straddle a sender boundary?
		if n > 1 && start < len(su) {
			end := len(ru)
			if end > len(su) {
				end = len(su)
			}
			pos := 0
			for _, s := range senders {
				_, sn := parsePart(s)
				pos += int(sn)
				if pos > start && pos < end {
					if name == "KEPT" {
						keptSpans = true
					} else {
						split = true
					}
				}
			}
		}
	}
	flows := map[[2]string]*big.Int{}
	for i := 0; i < len(su) && i < len(ru); i++ {
		if ru[i] == "KEPT" {
			continue
		}
		k := [2]string{su[i], ru[i]}
		if flows[k] == nil {
			flows[k] = new(big.Int)
		}
		flows[k].Add(flows[k], big.NewInt(1))
	}
	return flows, split, keptSpans
}

func checkC07(cc any) *ev.Verdict {
	c := cc.(*C07Case)
	v := &ev.Verdict{}
	if c.Direct {
		want, split, spans := unitFlows(c.Senders, c.Receivers)
		v.NonTrivial = split || spans
		var ss []verifapi.Sender
		var rs []verifapi.Receiver
		for _, s := range c.Senders {
			n, a := parsePart(s)
			ss = append(ss, verifapi.Sender{Name: n, Monetary: big.NewInt(a)})
		}
		for _, r := range c.Receivers {
			n, a := parsePart(r)
			if n == "KEPT" {
				n = verifapi.KeptAddr
			}
			rs = append(rs, verifapi.Receiver{Name: n, Monetary: big.NewInt(a)})
		}
		var postings []verifapi.Posting
		var err error
		pan := func() (p string) {
			defer func() {
				if r := recover(); r != nil {
					p = fmt.Sprint(r)
				}
			}()
			postings, err = verifapi.Reconcile("USD", ss, rs)
			return ""
		}()
		if pan != "" {
			return v.Failf("panic", "Reconcile panicked: %s", pan)
		}
		if err != nil {
			return v.Failf("error", "Reconcile failed on a balanced input: %v", err)
		}
		got := map[[2]string]*big.Int{}
		for _, p := range postings {
			if p.Source == verifapi.KeptAddr || p.Destination == verifapi.KeptAddr {
				return v.Failf("kept-posted", "a posting names the kept marker: %+v", p)
			}
			k := [2]string{p.Source, p.Destination}
			if got[k] == nil {
				got[k] = new(big.Int)
			}
			got[k].Add(got[k], p.Amount)
		}
		if !equalFlows(got, want) {
			return v.Failf("pairing", "senders %v receivers %v: flows %s, in-order pairing gives %s", c.Senders, c.Receivers, flowsString(got), flowsString(want))
		}
		return v
	}
	ec := c.script()
	r, _ := hx.Run(ec, doubles.Superset)
	outcomeLabel(r, v)
	if r.Panic != "" || r.ParseErrors > 0 {
		v.Skipped = "panic or parse error (C12/C14 own these)"
		return v
	}
	if !r.OK() {
		v.Skipped = "execution failed on a funded script (C03 owns this)"
		return v
	}
	// distribution list: caps absorb in order, the rest goes to remaining
	left := total(c.Senders)
	var recv []string
	for _, rc := range c.Receivers {
		name, n := parsePart(rc)
		if n > left {
			n = left
		}
		if n > 0 {
			recv = append(recv, fmt.Sprintf("%s:%d", name, n))
		}
		left -= n
	}
	if left > 0 {
		recv = append(recv, fmt.Sprintf("%s:%d", c.Remaining, left))
	}
	want, split, spans := unitFlows(c.Senders, recv)
	v.NonTrivial = split || spans
	if spans {
		v.Label("kept-spans-senders")
	}
	if split {
		v.Label("share-split")
	}
	for _, p := range r.Postings {
		if p.Src == verifapi.KeptAddr || p.Dst == verifapi.KeptAddr {
			return v.Failf("kept-posted", "a posting names the kept marker: %s", p)
		}
	}
	if got := hx.Flows(r.Postings); !equalFlows(got, want) {
		return v.Failf("pairing", "draws %v shares %v: flows %s, in-order pairing gives %s", c.Senders, recv, flowsString(got), flowsString(want))
	}
	return v
}

func checkC07Free(c any) *ev.Verdict {
	ec := c.(*gen.ExecCase)
	v := &ev.Verdict{}
	scriptLabels(ec, v)
	b := runBoth(ec)
	if b.refusedSpelling {
		v.Skipped = "a number written with leading zeros was refused as ill-formed (allowed)"
		return v
	}
	outcomeLabel(b.real, v)
	if b.real.Panic != "" || b.real.ParseErrors > 0 {
		v.Skipped = "panic or parse error"
		return v
	}
	if b.m.Err != nil && b.m.Err.Class == model.EInvalidAccountName {
		v.Label("invalid-account-name")
		if b.real.ErrClass != model.EInvalidAccountName {
			return v.Failf("invalid-account", "an account variable holds a text that is not an account name (%s) but execution gives %s", b.m.Err.Msg, b.real.Summary())
		}
		return v
	}
	if !b.agree() || b.m.Err != nil {
		v.Skipped = "failure or disagreement on success (C03 owns this)"
		return v
	}
	if !b.grouped {
		v.Skipped = "ungroupable (C09 owns this)"
		return v
	}
	for i, s := range b.m.Stmts {
		if s.Kind != gen.StSend {
			continue
		}
		if !equalFlows(hx.Flows(b.groups[i]), s.Flows) {
			return v.Failf("pairing", "statement %d `%s`: flows %s, in-order pairing of draws %v with shares %v gives %s", i, stmtText(ec, i), flowsString(hx.Flows(b.groups[i])), s.Draws, s.Recv, flowsString(s.Flows))
		}
		if len(s.Draws) >= 2 && len(s.Recv) >= 2 {
			v.NonTrivial = true
		}
	}
	return v
}

// ---------------------------------------------------------------- C09

func init() {
	ev.Register(&ev.Prop{
		ID:          "C09",
		Rule:        "typed generator, >= 2 statements, no balance()/overdraft() origins, metadata calls overwriting the same and different keys; every split point k; oracle (metamorphic, real interpreter on both sides): run(S1..Sn,B) = run(S1..Sk,B) ++ run(Sk+1..Sn,B') with B' = B updated statement by statement by the first run's postings and save reservations; metadata of the whole run = second run's values over the first's, key by key; a failing whole run means one part fails with the same class; non-trivial = the second part's result on B differs from its result on B'",
		New:         newExecCase,
		Check:       checkC09,
		Assumptions: []string{"save reservations enter B' as a lower balance (visible balance rule of C08)"},
	})
	Generators["C09"] = func(t *rapid.T, tier string) any {
		if gen.Chance(t, "c09.wide", 5) {
			return wideSplitCase(t)
		}
		k := gen.DefaultKnobs()
		k.MinStmts = 2
		k.MaxStmts = 5
		k.PCall = 18
		k.PSave = 14
		k.PWorldFallback = 35
		k.NoBalanceOrigins = true
		k.Accounts = []string{"a", "b", "c"}
		k.DestOnly = []string{"x"}
		k.Assets = []string{"USD", "EUR"}
		if tier == "thorough" {
			k.MaxStmts = 6
		}
		if gen.Chance(t, "c09.metaheavy", 10) {
			// many metadata writes over few holders and keys, with names and keys such that
			// different (holder, key) pairs spell the same text when joined ("s:t"+":"+"k" =
			// "s"+":"+"t:k"; "s"+"t.k" = "st"+".k" ...)
			k.MinStmts, k.MaxStmts = 1, 2
			ec := gen.NewTG(t, k).Case()
			n := 3 + gen.Uniform(t, "c09.mh.n", 4)
			for i := 0; i < n; i++ {
				val := gen.NumI(int64(i + 1))
				var st *gen.Stmt
				if gen.Chance(t, "c09.mh.tx", 25) {
					st = &gen.Stmt{Kind: gen.StCall, Call: &gen.Call{Fn: "set_tx_meta", Args: []*gen.Expr{gen.Str(gen.Pick(t, "c09.mh.txkey", []string{"k", "t:k", "k2"})), val}}}
				} else {
					st = &gen.Stmt{Kind: gen.StCall, Call: &gen.Call{Fn: "set_account_meta", Args: []*gen.Expr{
						gen.Acct(gen.Pick(t, "c09.mh.acct", []string{"a", "b"})), gen.Str(gen.Pick(t, "c09.mh.key", []string{"k", "t:k", "k2"})), val}}}
				}
				at := gen.Uniform(t, "c09.mh.at", len(ec.Script.Stmts)+1)
				ec.Script.Stmts = append(ec.Script.Stmts[:at], append([]*gen.Stmt{st}, ec.Script.Stmts[at:]...)...)
			}
			ec.Rename(gen.CollidingNames(1))
			return ec
		}
		return gen.NewTG(t, k).Case()
	}
}

func metaEqual(a, b map[string]string) bool {
	if len(a) != len(b) {
		return false
	}
	for k, v := range a {
		if w, ok := b[k]; !ok || v != w {
			return false
		}
	}
	return true
}

func acctMetaString(m map[string]map[string]string) string {
	var parts []string
	for _, a := range gen.SortedKeys(m) {
		for _, k := range gen.SortedKeys(m[a]) {
			parts = append(parts, a+"."+k+"="+m[a][k])
		}
	}
	return strings.Join(parts, ",")
}

func postingsString(ps []hx.Posting) string {
	var s []string
	for _, p := range ps {
		s = append(s, p.String())
	}
	return strings.Join(s, "; ")
}

func checkC09(c any) *ev.Verdict {
	ec := c.(*gen.ExecCase)
	v := &ev.Verdict{}
	scriptLabels(ec, v)
	n := len(ec.Script.Stmts)
	if n < 2 {
		v.Skipped = "fewer than two statements"
		return v
	}
	whole, _ := hx.Run(ec, doubles.Superset)
	outcomeLabel(whole, v)
	if whole.Panic != "" || whole.ParseErrors > 0 {
		v.Skipped = "panic or parse error (C12/C14 own these)"
		return v
	}
	in := hx.ModelInputs(ec)
	sa := model.Analyse(ec.Script, in)
	if sa.VarErr != nil {
		v.Skipped = "variable block fails"
		return v
	}
	// prefix runs
	prefix := make([]hx.Real, n+1)
	for k := 1; k < n; k++ {
		pc := *ec
		pc.Script = ec.Script.Prefix(k)
		prefix[k], _ = hx.Run(&pc, doubles.Superset)
	}
	prefix[n] = whole
	// B' after k statements, folded statement by statement
	cur := in.Balances.Clone()
	donePostings := 0
	for k := 1; k < n; k++ {
		first := prefix[k]
		if !first.OK() {
			// the first part fails: so must the whole, with the same class
			if whole.OK() {
				return v.Failf("prefix-fails", "statements 1..%d alone fail (%s) but the whole script succeeds: %s", k, first.Summary(), whole.Summary())
			}
			// which error the whole script reports when several statements are wrong is not
			// part of the property
			return v
		}
		// postings of statement k = first.Postings[donePostings:]
		if len(first.Postings) < donePostings {
			return v.Failf("prefix", "run of 1..%d has fewer postings than run of 1..%d", k, k-1)
		}
		if whole.OK() {
			if len(whole.Postings) < len(first.Postings) || postingsString(whole.Postings[:len(first.Postings)]) != postingsString(first.Postings) {
				return v.Failf("prefix", "postings of statements 1..%d alone [%s] are not a prefix of the whole run's [%s]", k, postingsString(first.Postings), postingsString(whole.Postings))
			}
		}
		st := ec.Script.Stmts[k-1]
		for _, p := range first.Postings[donePostings:] {
			cur.Add(p.Src, p.Asset, new(big.Int).Neg(p.Amt))
			cur.Add(p.Dst, p.Asset, p.Amt)
		}
		donePostings = len(first.Postings)
		if st.Kind == gen.StSave {
			applySave(cur, st, sa)
		}
		// second part on B'
		sc := *ec
		sc.Script = ec.Script.Slice(k, n)
		sc.Balances = sheetToStrings(cur)
		second, _ := hx.Run(&sc, doubles.Superset)
		if whole.OK() {
			if !second.OK() {
				return v.Failf("second-fails", "split at %d: the whole script succeeds but statements %d..%d on the updated balances fail: %s", k, k+1, n, second.Summary())
			}
			rest := whole.Postings[len(first.Postings):]
			if postingsString(rest) != postingsString(second.Postings) {
				return v.Failf("postings", "split at %d: whole run continues with [%s] but running the rest on the updated balances gives [%s]", k, postingsString(rest), postingsString(second.Postings))
			}
			// metadata: second over first
			wantTx := map[string]string{}
			for key, val := range first.TxMeta {
				wantTx[key] = val
			}
			for key, val := range second.TxMeta {
				wantTx[key] = val
			}
			if !metaEqual(wantTx, whole.TxMeta) {
				return v.Failf("txmeta", "split at %d: transaction metadata of the whole run %v differs from second-over-first %v", k, whole.TxMeta, wantTx)
			}
			wantAm := map[string]map[string]string{}
			for _, src := range []map[string]map[string]string{first.AcctMeta, second.AcctMeta} {
				for a, m := range src {
					if wantAm[a] == nil {
						wantAm[a] = map[string]string{}
					}
					for key, val := range m {
						wantAm[a][key] = val
					}
				}
			}
			if acctMetaString(wantAm) != acctMetaString(whole.AcctMeta) {
				return v.Failf("acctmeta", "split at %d: account metadata of the whole run {%s} differs from second-over-first {%s}", k, acctMetaString(whole.AcctMeta), acctMetaString(wantAm))
			}
		} else {
			// whole fails and the first part succeeded: the second part must fail with the same class
			if second.OK() {
				return v.Failf("whole-fails", "split at %d: the whole script fails (%s) but both parts succeed", k, whole.Summary())
			}
		}
		// non-trivial: does the second part depend on the first?
		oc := *ec
		oc.Script = ec.Script.Slice(k, n)
		onB, _ := hx.Run(&oc, doubles.Superset)
		if onB.Summary() != second.Summary() {
			v.NonTrivial = true
		}
	}
	return v
}

func applySave(cur model.Sheet, st *gen.Stmt, sa model.Static) {
	acct, ok1 := model.EvalIn(sa.Env, st.SaveFrom)
	sent, ok2 := model.EvalIn(sa.Env, st.Sent)
	if !ok1 || !ok2 {
		return
	}
	b := cur.Get(acct.S, sent.S)
	if b.Sign() < 0 {
		return
	}
	if st.All {
		cur.Set(acct.S, sent.S, new(big.Int))
		return
	}
	if sent.N.Sign() < 0 {
		return
	}
	nb := new(big.Int).Sub(b, sent.N)
	if nb.Sign() < 0 {
		nb = new(big.Int)
	}
	cur.Set(acct.S, sent.S, nb)
}

func sheetToStrings(s model.Sheet) map[string]map[string]string {
	out := map[string]map[string]string{}
	for a, m := range s {
		out[a] = map[string]string{}
		for k, v := range m {
			out[a][k] = v.String()
		}
	}
	return out
}
