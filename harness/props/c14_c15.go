package props

import (
	"fmt"
	"math/big"
	"os"
	"path/filepath"
	"runtime/debug"
	"sort"
	"strings"
	"unicode/utf8"

	"pgregory.net/rapid"

	"github.com/formancehq/numscript"
	"github.com/formancehq/numscript/verifapi"

	"verifharness/ev"
	"verifharness/gen"
	"verifharness/hx"
	"verifharness/lex"
	"verifharness/syntax"
)

// TextCase carries an arbitrary byte string (JSON would mangle invalid UTF-8 in a string).
type TextCase struct {
	Bytes []byte `json:"bytes"`
	Note  string `json:"note,omitempty"`
}

func (c *TextCase) Display() any {
	return map[string]any{"text": fmt.Sprintf("%q", string(c.Bytes)), "note": c.Note}
}

var seedScripts []string

func loadSeeds() []string {
	if seedScripts != nil {
		return seedScripts
	}
	root := os.Getenv("VERIF_ROOT")
	if root == "" {
		root = "/verif"
	}
	files, _ := filepath.Glob(filepath.Join(root, "corpus", "seeds", "*.num"))
	sort.Strings(files)
	for _, f := range files {
		if b, err := os.ReadFile(f); err == nil {
			seedScripts = append(seedScripts, string(b))
		}
	}
	if len(seedScripts) == 0 {
		seedScripts = []string{"send [USD/2 100] (\n  source = @a\n  destination = @b\n)\n"}
	}
	return seedScripts
}

// ---------------------------------------------------------------- text generators

var vocab = []string{"vars", "max", "source", "destination", "send", "from", "up", "to", "remaining", "allowing", "unbounded", "overdraft", "kept", "save",
	"(", ")", "[", "]", "{", "}", ",", "=", "*", "-", "+", "1/2", "50%", "\"s\"", "foo", "monetary", "account", "1", "-1", "$x", "@a", "@world", "USD", "USD/2",
	"set_tx_meta", "meta", "balance", "\n", " ", "//c\n", "/* c */"}

var hostile = []string{"0.00000000000000001%", "0.000000000000000001%", "12.5000000000000000%", "1.0000000000000000000%", "00000000000000000001%",
	"1/10000000000000000000", "1/9223372036854775808", "9223372036854775807/9223372036854775807", "1 / 18446744073709551616", "1/00000000000000000001",
	"99999999999999999999", "9223372036854775808", "-9223372036854775809", "08", "-09", "0019", "08%", "010%", "18446744073709551616%", "1/0", "0/0", "1.%", "//", "/*", "*/",
	"\"", "\"unterminated", "§", "é", "🙂", "\x00", "\xff", "\xc3", " ", "@", "$", "%", ".", ":", "_", "\\", "'", "1e5", "0x10", "1.5", "USD/2/", "@a:", "@a::b", "$1", "\r", "\t\t", "vars{", "}}", "((", "[[*"}

func baseText(t *rapid.T, tier string) (string, []string) {
	if gen.Chance(t, "seed.corpus", 35) {
		s := gen.Pick(t, "seed", loadSeeds())
		r := lex.Lex(s)
		var toks []string
		for _, tk := range r.Tokens {
			toks = append(toks, tk.Text)
		}
		return s, toks
	}
	g := &gen.GG{T: t, MaxDepth: 2, MaxWidth: 3}
	if tier == "thorough" {
		g.MaxDepth = 3
	}
	s := g.Script()
	var lay gen.Layout = gen.Canonical
	if gen.Chance(t, "layout", 50) {
		lay = gen.RandomLayout(t)
	}
	p := gen.Print(s, lay)
	return p.Text, p.Tokens
}

func mutateText(t *rapid.T, text string, toks []string) (string, string) {
	op := gen.Uniform(t, "mut.op", 12)
	switch op {
	case 0:
		return text, "unchanged"
	case 1: // truncate at a byte offset
		if len(text) == 0 {
			return text, "unchanged"
		}
		return text[:gen.Uniform(t, "mut.trunc", len(text)+1)], "truncate"
	case 2, 3, 4, 5, 6: // token-level edits on the token list, re-joined by single spaces / newlines
		if len(toks) == 0 {
			return text, "unchanged"
		}
		ts := append([]string{}, toks...)
		i := gen.Uniform(t, "mut.i", len(ts))
		note := ""
		switch op {
		case 2:
			ts = append(ts[:i], ts[i+1:]...)
			note = "delete-token"
		case 3:
			ts = append(ts[:i+1], ts[i:]...)
			note = "duplicate-token"
		case 4:
			j := gen.Uniform(t, "mut.j", len(ts))
			ts[i], ts[j] = ts[j], ts[i]
			note = "swap-tokens"
		case 5:
			ins := gen.Pick(t, "mut.ins", append(append([]string{}, vocab...), hostile...))
			ts = append(ts[:i], append([]string{ins}, ts[i:]...)...)
			note = "insert-token"
		case 6:
			ts[i] = gen.Pick(t, "mut.rep", append(append([]string{}, vocab...), hostile...))
			note = "replace-token"
		}
		sep := gen.Pick(t, "mut.sep", []string{" ", " ", "\n"})
		return strings.Join(ts, sep), note
	case 7: // splice a hostile constant at a byte offset
		off := gen.Uniform(t, "mut.off", len(text)+1)
		return text[:off] + gen.Pick(t, "mut.hostile", hostile) + text[off:], "splice"
	case 8: // delete a byte range
		if len(text) < 2 {
			return text, "unchanged"
		}
		a := gen.Uniform(t, "mut.a", len(text))
		b := a + 1 + gen.Uniform(t, "mut.b", min(8, len(text)-a))
		return text[:a] + text[b:], "delete-bytes"
	case 9: // token soup
		n := 1 + gen.Uniform(t, "soup.n", 14)
		var ts []string
		for i := 0; i < n; i++ {
			ts = append(ts, gen.Pick(t, "soup.tok", append(append([]string{}, vocab...), hostile...)))
		}
		return strings.Join(ts, gen.Pick(t, "soup.sep", []string{" ", "", "\n"})), "soup"
	case 10: // typing: a prefix that ends at a token boundary
		if len(toks) == 0 {
			return text, "unchanged"
		}
		return strings.Join(toks[:gen.Uniform(t, "type.n", len(toks)+1)], " "), "token-prefix"
	default: // two edits
		a, _ := mutateText(t, text, toks)
		r := lex.Lex(a)
		var ts []string
		for _, tk := range r.Tokens {
			ts = append(ts, tk.Text)
		}
		b, note := mutateText(t, a, ts)
		return b, "double:" + note
	}
}

// ---------------------------------------------------------------- C14

func init() {
	ev.Register(&ev.Prop{
		ID:        "C14",
		Rule:      "inputs: (i) every prefix (truncation at every byte offset) of the corpus scripts, exhaustively; (ii) generated: corpus scripts and grammar-complete generator output under random layouts, mutated by truncation, token deletion/duplication/swap/insertion/replacement, splices of hostile constants (huge numerals, 08%, 1/0, NUL, invalid UTF-8, non-ASCII, unbalanced brackets and comments), byte-range deletion, token soups, token prefixes, double edits; oracle: no panic from Parse / GetParsingErrors / ParseErrorsToString; the reference recogniser (independent lexer + recursive-descent parser written from Numscript.g4) says valid => zero errors, invalid => >= 1 error (inputs on which the lexer emulation abstains skip this clause); every error starts inside the text or at its end; non-trivial = the input is not a seed and is invalid, or contains non-ASCII / a numeral >= 2^63 / a changed layout",
		New:       func() any { return &TextCase{} },
		Check:     checkC14,
		Enumerate: enumC14,
	})
	Generators["C14"] = func(t *rapid.T, tier string) any {
		text, toks := baseText(t, tier)
		out, note := mutateText(t, text, toks)
		out, note = tallText(t, out, note)
		return &TextCase{Bytes: []byte(out), Note: note}
	}
}

// tallText (3 % of the cases): the text is moved down so that it starts around line 10, 100,
// 1 000 or 10 000 (line numbers gaining a digit is where the rendering of errors changes its
// layout), and some lines follow it.
func tallText(t *rapid.T, text, note string) (string, string) {
	if !gen.Chance(t, "tall", 3) {
		return text, note
	}
	base := gen.Pick(t, "tall.base", []int{10, 100, 1000, 1000, 10000})
	n := base - 3 + gen.Uniform(t, "tall.off", 5)
	filler := gen.Pick(t, "tall.filler", []string{"\n", "\n", "// c\n", "\r\n"})
	tail := gen.Pick(t, "tall.tail", []string{"", "\n", "\n\n", "\nsend [USD 1] (source = @a destination = @b)\n", "\n// end\n\n"})
	return strings.Repeat(filler, n) + text + tail, "tall:" + note
}

func enumC14(tier string, shard, nshards int, visit func(any) bool) (string, bool) {
	seeds := loadSeeds()
	idx := 0
	for _, s := range seeds {
		for off := 0; off <= len(s); off++ {
			idx++
			if idx%nshards != shard {
				continue
			}
			if !visit(&TextCase{Bytes: []byte(s[:off]), Note: "seed-prefix"}) {
				return "", false
			}
		}
	}
	return fmt.Sprintf("every byte prefix of the %d corpus scripts", len(seeds)), true
}

type parseOutcome struct {
	panic  string
	errors []verifapi.ParserError
	shown  string
}

func realParse(text string) (out parseOutcome) {
	defer func() {
		if r := recover(); r != nil {
			out.panic = fmt.Sprintf("%v\n%s", r, debug.Stack())
		}
	}()
	pr := numscript.Parse(text)
	out.errors = pr.GetParsingErrors()
	if len(out.errors) > 0 {
		out.shown = numscript.ParseErrorsToString(out.errors, text)
	}
	return
}

// positionInside: line within the text's lines (split on \n as ANTLR counts them), and
// character not beyond the end of that line (code points; invalid bytes count one each).
func positionInside(text string, line, char int) bool {
	if line < 0 || char < 0 {
		return false
	}
	lines := strings.Split(text, "\n")
	if line >= len(lines) {
		return false
	}
	return char <= lex.RuneLen(lines[line])
}

func hasInt64Overflow(toks []lex.Token) bool {
	for _, t := range toks {
		if t.Kind == lex.NUMBER {
			n, ok := new(big.Int).SetString(t.Text, 10)
			if ok && !n.IsInt64() {
				return true
			}
		}
	}
	return false
}

func substituteHugeNumbers(text string, toks []lex.Token) string {
	var sb strings.Builder
	last := 0
	for _, t := range toks {
		if t.Kind != lex.NUMBER {
			continue
		}
		if n, ok := new(big.Int).SetString(t.Text, 10); ok && !n.IsInt64() {
			sb.WriteString(text[last:t.Off])
			// same token class in the same context: keep the sign, shrink the digits
			if strings.HasPrefix(t.Text, "-") {
				sb.WriteString("-0")
			} else {
				sb.WriteString("0")
			}
			last = t.Off + len(t.Text)
		}
	}
	sb.WriteString(text[last:])
	return sb.String()
}

func isSeed(text string) bool {
	for _, s := range loadSeeds() {
		if s == text {
			return true
		}
	}
	return false
}

func checkC14(cc any) *ev.Verdict {
	c := cc.(*TextCase)
	v := &ev.Verdict{}
	text := string(c.Bytes)
	inflight(c)
	if c.Note != "" {
		v.Label("edit:" + strings.SplitN(c.Note, ":", 2)[0])
	}
	ref := syntax.Parse(text)
	out := realParse(text)
	if out.panic != "" {
		class := "panic"
		if hasInt64Overflow(ref.Tokens) {
			class = "panic-int64-literal"
		}
		return v.Failf(class, "parsing %q panicked: %s", text, firstLines(out.panic, 12))
	}
	for i, e := range out.errors {
		if !positionInside(text, e.Range.Start.Line, e.Range.Start.Character) {
			return v.Failf("position", "error %d (%s) starts at line %d character %d, outside the text %q", i, e.Msg, e.Range.Start.Line, e.Range.Start.Character, text)
		}
	}
	switch {
	case !utf8.ValidString(text):
		// the grammar is stated over characters: whether a byte sequence that is not UTF-8 "is a
		// valid script" is not defined (the pinned code reads each stray byte as U+FFFD, another
		// reader may refuse the text). No panic and located errors are still required.
		v.Label("ref:not-utf8 (valid/invalid clause skipped)")
	case ref.Uncertain:
		v.Label("ref:uncertain")
	case ref.Valid:
		v.Label("ref:valid")
		if len(out.errors) != 0 {
			class := "valid-rejected"
			if hasInt64Overflow(ref.Tokens) {
				// is the out-of-range numeral the only cause? replace each by 0 and parse again
				if sub := realParse(substituteHugeNumbers(text, ref.Tokens)); sub.panic == "" && len(sub.errors) == 0 {
					class = "int64-literal-rejected"
				}
			}
			return v.Failf(class, "the text %q is syntactically valid but %d error(s) were reported, first: %s at %d:%d", text, len(out.errors), out.errors[0].Msg, out.errors[0].Range.Start.Line, out.errors[0].Range.Start.Character)
		}
	default:
		v.Label("ref:invalid")
		if len(out.errors) == 0 {
			return v.Failf("invalid-accepted", "the text %q is not a valid script (reference recogniser; %d lexical errors) but no error was reported", text, ref.LexErrors)
		}
	}
	if !utf8.ValidString(text) {
		v.Label("invalid-utf8")
	}
	seed := isSeed(text)
	v.NonTrivial = !seed && ((!ref.Valid && !ref.Uncertain) || gen.HasNonASCII(text) || hasInt64Overflow(ref.Tokens) || c.Note == "unchanged")
	return v
}

func firstLines(s string, n int) string {
	lines := strings.Split(s, "\n")
	if len(lines) > n {
		lines = lines[:n]
	}
	return strings.Join(lines, "\n")
}

// ---------------------------------------------------------------- C15

type C15Case struct {
	Script *gen.Script `json:"script"`
	Seps   []string    `json:"seps"`
	// Glue: comments are also written directly after tokens ending in A-Z, 0-9 or '/'
	Glue bool `json:"glue,omitempty"`
}

func (c *C15Case) Display() any {
	s := c.Script.Clone()
	if c.Glue {
		return map[string]any{"text": gen.Print(s, &gen.GlueLayout{Seps: c.Seps}).Text, "glue": true}
	}
	return map[string]any{"text": gen.Print(s, &gen.ListLayout{Seps: c.Seps}).Text}
}

func init() {
	ev.Register(&ev.Prop{
		ID:    "C15",
		Rule:  "grammar-complete generator (every alternative of every rule, any value expression wherever the grammar allows one, nesting to a bound, list widths 0-4; integer literals within 64 bits, which C14 owns) x the canonical layout and a random layout (spaces, tabs, LF, CRLF, line and block comments incl. nested and non-ASCII ones between any two tokens, the reference lexer deciding which separators keep the token stream intact); oracle: the real tree, converted node by node, equals the generator's tree in structure, literal values and in the range of every range-carrying node (spans recorded by the printer, in code points), under both layouts; self-check: the reference parser reads the text back to the same tree; non-trivial = >= 3 distinct constructs and a non-canonical layout, or a non-ASCII character before a node's end",
		New:   func() any { return &C15Case{} },
		Check: checkC15,
	})
	Generators["C15"] = func(t *rapid.T, tier string) any {
		g := &gen.GG{T: t, MaxDepth: 3, MaxWidth: 4, NoHugeNumbers: true}
		if tier == "thorough" {
			g.MaxDepth = 4
		}
		c := &C15Case{Script: g.Script(), Seps: gen.RandomLayout(t).Seps}
		if gen.Chance(t, "long", 2) && len(c.Script.Stmts) > 0 {
			// long scripts: the same statements (and declarations) over and over, 130-400 of them
			// - the tree does not depend on how many came before
			want := 130 + gen.Uniform(t, "long.n", 270)
			base := c.Script.Clone()
			for len(c.Script.Stmts) < want {
				c.Script.Stmts = append(c.Script.Stmts, base.Clone().Stmts...)
			}
			if len(base.Vars) > 0 && gen.Chance(t, "long.vars", 50) {
				for len(c.Script.Vars) < want {
					c.Script.Vars = append(c.Script.Vars, base.Clone().Vars...)
				}
			}
			return c
		}
		if gen.Chance(t, "glue", 6) {
			c.Glue = true
			c.Seps = nil
			for i, n := 0, 2+gen.Uniform(t, "glue.n", 6); i < n; i++ {
				c.Seps = append(c.Seps, gen.Pick(t, "glue.sep", []string{" ", " ", "/* c */", "/**/", "// c\n", " /* d */ ", "\n", "/* \"q\" */", "// \"q\"\n"}))
			}
		}
		return c
	}
}

func parseAndConvert(text string) (s *gen.Script, nerr int, firstErr string, pan string, convErr error) {
	defer func() {
		if r := recover(); r != nil {
			pan = fmt.Sprintf("%v\n%s", r, debug.Stack())
		}
	}()
	pr := verifapi.Parse(text)
	nerr = len(pr.Errors)
	if nerr > 0 {
		firstErr = fmt.Sprintf("%s at %d:%d", pr.Errors[0].Msg, pr.Errors[0].Range.Start.Line, pr.Errors[0].Range.Start.Character)
		return
	}
	s, convErr = hx.Convert(pr.Value)
	return
}

// checkGlued: a comment written directly after a token that ends in A-Z, 0-9 or '/' must
// not change the tree either ("comments between any two tokens").
func checkGlued(c *C15Case, v *ev.Verdict) *ev.Verdict {
	want := c.Script.Clone()
	lay := &gen.GlueLayout{Seps: c.Seps}
	p := gen.Print(want, lay)
	if lay.Glued == 0 {
		v.Skipped = "no comment ended up glued to a token ending in A-Z, 0-9 or '/'"
		return v
	}
	v.Label("glued-comment")
	v.NonTrivial = true
	diff := func(text string, w *gen.Script) string {
		got, nerr, firstErr, pan, convErr := parseAndConvert(text)
		switch {
		case pan != "":
			return "panic: " + firstLines(pan, 4)
		case nerr != 0:
			return "rejected: " + firstErr
		case convErr != nil:
			return "hole in the tree: " + convErr.Error()
		}
		return gen.Compare(w, got, true)
	}
	d := diff(p.Text, want)
	if d == "" {
		return v
	}
	// is the gluing the only cause? the same layout with a blank before those comments must be fine
	want2 := c.Script.Clone()
	p2 := gen.Print(want2, &gen.GlueLayout{Seps: c.Seps, Pad: true})
	class := "glued-comment-other"
	if p2.LexMatches() && diff(p2.Text, want2) == "" {
		class = "comment-glued-to-slash-token"
		if lay.StringCase > 0 {
			class = "comment-changes-token-stream"
		}
	}
	return v.Failf(class, "a comment directly after a token changes the tree: %q: %s", p.Text, d)
}

func checkC15(cc any) *ev.Verdict {
	c := cc.(*C15Case)
	v := &ev.Verdict{}
	if c.Glue {
		return checkGlued(c, v)
	}
	feats := c.Script.Features()
	for _, f := range feats {
		v.Label("has:" + f)
	}
	layouts := []struct {
		name string
		lay  gen.Layout
	}{{"canonical", gen.Canonical}, {"random", &gen.ListLayout{Seps: c.Seps}}}
	nonASCII := false
	for _, l := range layouts {
		want := c.Script.Clone()
		p := gen.Print(want, l.lay)
		if !p.LexMatches() {
			v.Label("layout-not-token-preserving:" + l.name)
			continue
		}
		// harness self-check: the reference parser reads back the same tree
		rv := syntax.Parse(p.Text)
		if !rv.Valid {
			v.HarnessError = fmt.Sprintf("reference parser rejects generated text %q", p.Text)
			return v
		}
		if d := gen.Compare(want, rv.Script, true); d != "" {
			v.HarnessError = fmt.Sprintf("reference parser disagrees with the generator on %q: %s", p.Text, d)
			return v
		}
		got, nerr, firstErr, pan, convErr := parseAndConvert(p.Text)
		if pan != "" {
			v.Skipped = "parser panic (C14 owns this)"
			return v
		}
		if nerr != 0 {
			return v.Failf("valid-rejected", "%s layout: well-formed script %q rejected: %s", l.name, p.Text, firstErr)
		}
		if convErr != nil {
			return v.Failf("nil-node", "%s layout: the tree of %q has a hole: %v", l.name, p.Text, convErr)
		}
		if d := gen.Compare(want, got, false); d != "" {
			return v.Failf("structure", "%s layout: %q parsed differently from what was written: %s", l.name, p.Text, d)
		}
		if d := gen.Compare(want, got, true); d != "" {
			class := "range"
			if gen.HasNonASCII(p.Text) {
				class = "range-nonascii"
			}
			return v.Failf(class, "%s layout: %q: %s", l.name, p.Text, d)
		}
		// containment as the repository's own Range.Contains judges it: every child lies
		// within its parent, the positions just outside the parent do not
		if msg := containmentViolation(got); msg != "" {
			return v.Failf("containment", "%s layout: %q: %s", l.name, p.Text, msg)
		}
		if gen.HasNonASCII(p.Text) {
			nonASCII = true
		}
	}
	v.NonTrivial = len(feats) >= 3 || nonASCII
	if nonASCII {
		v.Label("non-ascii")
	}
	return v
}

func toRange(sp *gen.Span) verifapi.Range {
	return verifapi.Range{Start: verifapi.Position{Line: sp.SL, Character: sp.SC}, End: verifapi.Position{Line: sp.EL, Character: sp.EC}}
}

// containmentViolation walks the (converted) real tree and asks Range.Contains whether
// each child's first and last position lie in its parent.
func containmentViolation(s *gen.Script) string {
	msg := ""
	check := func(what string, parent, child *gen.Span) {
		if msg != "" || parent == nil || child == nil {
			return
		}
		pr := toRange(parent)
		for _, pos := range []verifapi.Position{{Line: child.SL, Character: child.SC}, {Line: child.EL, Character: child.EC}} {
			if !pr.Contains(pos) {
				msg = fmt.Sprintf("%s: position %d:%d of a child (%d:%d-%d:%d) is not contained in its parent's range %d:%d-%d:%d", what, pos.Line, pos.Character, child.SL, child.SC, child.EL, child.EC, parent.SL, parent.SC, parent.EL, parent.EC)
				return
			}
		}
		if parent.SC > 0 && pr.Contains(verifapi.Position{Line: parent.SL, Character: parent.SC - 1}) {
			msg = fmt.Sprintf("%s: the position just before the range %d:%d-%d:%d is reported as inside it", what, parent.SL, parent.SC, parent.EL, parent.EC)
		}
		if pr.Contains(verifapi.Position{Line: parent.EL, Character: parent.EC + 1}) {
			msg = fmt.Sprintf("%s: the position just after the range %d:%d-%d:%d is reported as inside it", what, parent.SL, parent.SC, parent.EL, parent.EC)
		}
	}
	var we func(parent *gen.Span, e *gen.Expr)
	we = func(parent *gen.Span, e *gen.Expr) {
		if e == nil {
			return
		}
		check("expression", parent, e.Span)
		we(e.Span, e.L)
		we(e.Span, e.R)
	}
	var ws func(parent *gen.Span, x *gen.Src)
	ws = func(parent *gen.Span, x *gen.Src) {
		if x == nil {
			return
		}
		check("source", parent, x.Span)
		we(x.Span, x.Addr)
		we(x.Span, x.Bound)
		we(x.Span, x.Cap)
		ws(x.Span, x.From)
		for _, y := range x.Subs {
			ws(x.Span, y)
		}
		for i := range x.Items {
			check("source allotment item", x.Span, x.Items[i].Span)
			check("portion", x.Items[i].Span, x.Items[i].Portion.Span)
			ws(x.Items[i].Span, x.Items[i].From)
		}
	}
	var wd func(parent *gen.Span, x *gen.Dst)
	wk := func(parent *gen.Span, k *gen.KOD) {
		if k == nil {
			return
		}
		if k.Kept {
			check("kept", parent, k.Span)
			return
		}
		wd(parent, k.Dst)
	}
	wd = func(parent *gen.Span, x *gen.Dst) {
		if x == nil {
			return
		}
		check("destination", parent, x.Span)
		we(x.Span, x.Addr)
		for i := range x.Clauses {
			check("destination clause", x.Span, x.Clauses[i].Span)
			we(x.Clauses[i].Span, x.Clauses[i].Cap)
			wk(x.Clauses[i].Span, &x.Clauses[i].To)
		}
		wk(x.Span, x.Remaining)
		for i := range x.Items {
			check("destination allotment item", x.Span, x.Items[i].Span)
			check("portion", x.Items[i].Span, x.Items[i].Portion.Span)
			wk(x.Items[i].Span, &x.Items[i].To)
		}
	}
	wc := func(parent *gen.Span, c *gen.Call) {
		if c == nil {
			return
		}
		check("call", parent, c.Span)
		check("function name", c.Span, c.NameSpan)
		for _, a := range c.Args {
			we(c.Span, a)
		}
	}
	for i := range s.Vars {
		d := &s.Vars[i]
		check("declared type", d.Span, d.TypeSpan)
		check("declared name", d.Span, d.NameSpan)
		wc(d.Span, d.Origin)
	}
	for _, st := range s.Stmts {
		check("sent value", st.Span, st.SentSpan)
		we(st.SentSpan, st.Sent)
		ws(st.Span, st.Src)
		wd(st.Span, st.Dst)
		we(st.Span, st.SaveFrom)
		if st.Call != nil && st.Kind == gen.StCall {
			for _, a := range st.Call.Args {
				we(st.Span, a)
			}
		}
	}
	return msg
}

// ---------------------------------------------------------------- C15T: arbitrary valid text

func init() {
	ev.Register(&ev.Prop{
		ID:    "C15T",
		Rule:  "texts that the reference recogniser accepts: every corpus script as it is (exhaustive), and generated ones - corpus scripts and grammar-complete scripts whose tokens are re-joined with random separators (blanks, tabs, LF, CRLF, lone CR, line and block comments, nothing), then mutated by the C14 mutators (the mutants that stay valid count); oracle: the real tree equals the tree built by the independent reference parser (recursive descent over the reference lexer's tokens) in structure, literal values and in every range; containment through the repository's Range.Contains; non-trivial = the text is not a corpus script as it is",
		New:   func() any { return &TextCase{} },
		Check: checkC15T,
		Enumerate: func(tier string, shard, nshards int, visit func(any) bool) (string, bool) {
			seeds := loadSeeds()
			for i, s := range seeds {
				if i%nshards != shard {
					continue
				}
				if !visit(&TextCase{Bytes: []byte(s), Note: "corpus"}) {
					return "", false
				}
			}
			return fmt.Sprintf("the %d corpus scripts as they are", len(seeds)), true
		},
	})
	Generators["C15T"] = func(t *rapid.T, tier string) any {
		text, toks := baseText(t, tier)
		// re-join the tokens with random separators
		if len(toks) > 0 && gen.Chance(t, "relayout", 70) {
			lay := gen.RandomLayout(t)
			var sb strings.Builder
			for i, tk := range toks {
				prev := ""
				if i > 0 {
					prev = toks[i-1]
				}
				sb.WriteString(lay.Sep(i, prev, tk))
				sb.WriteString(tk)
			}
			sb.WriteString(lay.Sep(len(toks), toks[len(toks)-1], ""))
			text = sb.String()
		}
		note := "relayout"
		if gen.Chance(t, "mutate", 30) {
			text, note = mutateText(t, text, toks)
		}
		return &TextCase{Bytes: []byte(text), Note: note}
	}
}

func checkC15T(cc any) *ev.Verdict {
	c := cc.(*TextCase)
	v := &ev.Verdict{}
	text := string(c.Bytes)
	ref := syntax.Parse(text)
	if ref.Uncertain || !ref.Valid {
		v.Skipped = "the reference recogniser does not accept the text (C14 owns validity)"
		return v
	}
	if hasInt64Overflow(ref.Tokens) {
		v.Skipped = "integer literal beyond 64 bits (known finding of C14)"
		return v
	}
	if !utf8.ValidString(text) {
		v.Skipped = "not valid UTF-8 (the input stream replaces each bad byte by U+FFFD; not a script text)"
		return v
	}
	got, nerr, firstErr, pan, convErr := parseAndConvert(text)
	if pan != "" {
		v.Skipped = "parser panic (C14 owns this)"
		return v
	}
	if nerr != 0 {
		v.Skipped = "valid text rejected (C14 owns this): " + firstErr
		return v
	}
	if convErr != nil {
		return v.Failf("nil-node", "the tree of the valid text %q has a hole: %v", text, convErr)
	}
	if d := gen.Compare(ref.Script, got, false); d != "" {
		return v.Failf("structure", "%q: the parsed tree differs from the reference parser's: %s", text, d)
	}
	if d := gen.Compare(ref.Script, got, true); d != "" {
		return v.Failf("range", "%q: %s", text, d)
	}
	if msg := containmentViolation(got); msg != "" {
		return v.Failf("containment", "%q: %s", text, msg)
	}
	v.NonTrivial = c.Note != "corpus"
	if gen.HasNonASCII(text) {
		v.Label("non-ascii")
	}
	v.Label("note:" + strings.SplitN(c.Note, ":", 2)[0])
	return v
}
