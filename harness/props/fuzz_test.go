package props

import (
	"fmt"
	"os"
	"path/filepath"
	"strconv"
	"strings"
	"testing"

	"verifharness/ev"
)

// Native (coverage-guided) fuzz targets, used by the thorough tier on raw bytes. The
// semantic oracle is the same Check function the generated search uses.

func fuzzTarget(f *testing.F, id string) {
	p := ev.Registry[id]
	findings, _ := ev.LoadFindings(os.Getenv("VERIF_KNOWN"))
	for _, s := range loadSeeds() {
		f.Add([]byte(s))
	}
	for _, h := range hostile {
		f.Add([]byte("send [USD 1] (source = " + h + " destination = @b)"))
		f.Add([]byte(h))
	}
	outdir := os.Getenv("VERIF_OUT")
	f.Fuzz(func(t *testing.T, data []byte) {
		// error rendering is quadratic (errors x source length) in the code under test and in
		// the oracle; very long inputs only make the campaign slow
		if len(data) > 3000 {
			t.Skip()
		}
		c := &TextCase{Bytes: data, Note: "native-fuzz"}
		v := safeCheck(p, c)
		if v.HarnessError != "" {
			t.Fatalf("VERIF-HARNESS-ERROR property=%s :: %s", id, v.HarnessError)
		}
		if v.Violation == "" || findings.Known(id, v.Class) != nil {
			return
		}
		path := filepath.Join(outdir, "violation-fuzz-"+id+".json")
		ev.WriteReplay(path, id, c, v)
		fmt.Printf("VERIF-VIOLATION property=%s replay=%s class=%q :: %s\n", id, path, v.Class, v.Violation)
		t.Fatalf("violation: %s", v.Violation)
	})
}

// TestFuzzFileToCase converts a crasher file written by the native fuzzer
// (testdata/fuzz/<target>/<hash>) into a replay file of the property.
func TestFuzzFileToCase(t *testing.T) {
	src, dst, id := os.Getenv("VERIF_FUZZFILE"), os.Getenv("VERIF_FUZZCASE"), os.Getenv("VERIF_PROP")
	if src == "" {
		t.Skip()
	}
	b, err := os.ReadFile(src)
	if err != nil {
		t.Fatal(err)
	}
	lines := strings.SplitN(string(b), "\n", 3)
	if len(lines) < 2 || !strings.HasPrefix(lines[1], "[]byte(") {
		t.Fatalf("unexpected corpus file format: %q", b)
	}
	lit := strings.TrimSuffix(strings.TrimPrefix(strings.TrimSpace(lines[1]), "[]byte("), ")")
	data, err := strconv.Unquote(lit)
	if err != nil {
		t.Fatal(err)
	}
	ev.WriteReplay(dst, id, &TextCase{Bytes: []byte(data), Note: "native-fuzz crasher"}, &ev.Verdict{Violation: "the fuzz worker died on this input"})
}

func FuzzC14(f *testing.F) { fuzzTarget(f, "C14") }
func FuzzC18(f *testing.F) { fuzzTarget(f, "C18") }
