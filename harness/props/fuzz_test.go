package props

import (
	"fmt"
	"os"
	"path/filepath"
	"testing"

	"verifharness/ev"
)

// Native (coverage-guided) fuzz targets, used by the thorough tier on raw bytes. The
// semantic oracle is the same Check function the generated search uses.

func fuzzTarget(f *testing.F, id string) {
	p := ev.Registry[id]
	findings, _ := ev.LoadFindings(os.Getenv("VERIF_KNOWN"))
	for _, s := range loadSeeds() {
		f.Add([]byte(s))
	}
	for _, h := range hostile {
		f.Add([]byte("send [USD 1] (source = " + h + " destination = @b)"))
		f.Add([]byte(h))
	}
	outdir := os.Getenv("VERIF_OUT")
	f.Fuzz(func(t *testing.T, data []byte) {
		// error rendering is quadratic (errors x source length) in the code under test and in
		// the oracle; very long inputs only make the campaign slow
		if len(data) > 3000 {
			t.Skip()
		}
		c := &TextCase{Bytes: data, Note: "native-fuzz"}
		v := safeCheck(p, c)
		if v.HarnessError != "" {
			t.Fatalf("VERIF-HARNESS-ERROR property=%s :: %s", id, v.HarnessError)
		}
		if v.Violation == "" || findings.Known(id, v.Class) != nil {
			return
		}
		path := filepath.Join(outdir, "violation-fuzz-"+id+".json")
		ev.WriteReplay(path, id, c, v)
		fmt.Printf("VERIF-VIOLATION property=%s replay=%s class=%q :: %s\n", id, path, v.Class, v.Violation)
		t.Fatalf("violation: %s", v.Violation)
	})
}

func FuzzC14(f *testing.F) { fuzzTarget(f, "C14") }
func FuzzC18(f *testing.F) { fuzzTarget(f, "C18") }
