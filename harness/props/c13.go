package props

import (
	"encoding/json"
	"fmt"
	"math/big"
	"strings"

	"pgregory.net/rapid"

	"verifharness/doubles"
	"verifharness/ev"
	"verifharness/gen"
	"verifharness/hx"
	"verifharness/model"
)

// ---------------------------------------------------------------- C13: portion texts

type C13Case struct {
	Text  string `json:"text"`
	AsVar bool   `json:"asvar"`
}

func init() {
	ev.Register(&ev.Prop{
		ID:        "C13",
		Rule:      "(i) exhaustive: every portion text `a/b`, `a / b` with a, b digit strings (leading zeros included) of length <= 2 (thorough: 3), b != 0, value <= 1, and every `i%`, `i.f%` with i of length <= 3, f of length <= 2 (thorough: 3), value <= 100, each as a literal and as a portion variable; (ii) generated: numerators/denominators up to 40 digits, percentages with up to 20 decimals; oracle: base-ten big-rational value computed from the digit strings by the harness, observed as the credit of `send [X den*7] (source=@world destination={P to @a remaining to @b})`, which must be exactly num*7; non-trivial = the text reads differently in base 8/16, or is not in lowest terms, or has decimals, or exceeds 64 bits",
		New:       func() any { return &C13Case{} },
		Check:     checkC13,
		Enumerate: enumC13,
	})
	Generators["C13"] = func(t *rapid.T, tier string) any {
		digits := func(label string, maxLen int, lead bool) string {
			n := 1 + gen.Uniform(t, label+".len", maxLen)
			s := ""
			for i := 0; i < n; i++ {
				s += fmt.Sprint(gen.Uniform(t, label+".d", 10))
			}
			if lead && gen.Chance(t, label+".lead0", 30) {
				s = strings.Repeat("0", 1+gen.Uniform(t, label+".nz", 3)) + s
			}
			return s
		}
		c := &C13Case{AsVar: gen.Chance(t, "asvar", 50)}
		if gen.Chance(t, "percent", 50) {
			// value <= 100: integer part at most two digits (or exactly 100)
			ip := digits("ip", 2, true)
			fp := ""
			if gen.Chance(t, "frac", 75) {
				fp = "." + digits("fp", gen.Pick(t, "fplen", []int{1, 2, 3, 6, 12, 20}), false)
			}
			c.Text = ip + fp + "%"
		} else {
			b := digits("b", gen.Pick(t, "blen", []int{1, 3, 10, 19, 20, 40}), true)
			bn, _ := new(big.Int).SetString(b, 10)
			if bn.Sign() == 0 {
				b = b + "7"
				bn, _ = new(big.Int).SetString(b, 10)
			}
			// a <= b
			a := digits("a", len(b), true)
			an, _ := new(big.Int).SetString(a, 10)
			if an.Cmp(bn) > 0 {
				an.Mod(an, new(big.Int).Add(bn, big.NewInt(1)))
				a = an.String()
			}
			c.Text = a + gen.Pick(t, "slash", []string{"/", " / ", " /", "/ "}) + b
		}
		return c
	}
}

func digitStrings(maxLen int) []string {
	var out []string
	var rec func(cur string)
	rec = func(cur string) {
		if len(cur) > 0 {
			out = append(out, cur)
		}
		if len(cur) == maxLen {
			return
		}
		for d := 0; d < 10; d++ {
			rec(cur + fmt.Sprint(d))
		}
	}
	rec("")
	return out
}

func enumC13(tier string, shard, nshards int, visit func(any) bool) (string, bool) {
	L, F := 2, 2
	if tier == "thorough" {
		L, F = 3, 3
	}
	ds := digitStrings(L)
	idx := 0
	emit := func(text string) bool {
		for _, asVar := range []bool{false, true} {
			idx++
			if idx%nshards != shard {
				continue
			}
			if !visit(&C13Case{Text: text, AsVar: asVar}) {
				return false
			}
		}
		return true
	}
	for _, a := range ds {
		an, _ := new(big.Int).SetString(a, 10)
		for _, b := range ds {
			bn, _ := new(big.Int).SetString(b, 10)
			if bn.Sign() == 0 || an.Cmp(bn) > 0 {
				continue
			}
			if !emit(a+"/"+b) || !emit(a+" / "+b) {
				return "", false
			}
		}
	}
	is := digitStrings(3)
	fs := append([]string{""}, digitStrings(F)...)
	hundred := big.NewRat(100, 1)
	for _, i := range is {
		for _, f := range fs {
			text := i
			if f != "" {
				text += "." + f
			}
			val, ok := model.PortionValue(text + "%")
			if !ok {
				continue
			}
			if new(big.Rat).Mul(val, hundred).Cmp(hundred) > 0 {
				continue
			}
			if !emit(text + "%") {
				return "", false
			}
		}
	}
	return fmt.Sprintf("portion texts a/b and a / b with digit strings of length <= %d (b != 0, value <= 1) and i%%, i.f%% with |i| <= 3, |f| <= %d (value <= 100), as literal and as variable", L, F), true
}

func checkC13(cc any) *ev.Verdict {
	c := cc.(*C13Case)
	v := &ev.Verdict{}
	val, ok := model.PortionValue(c.Text)
	if !ok || val.Sign() < 0 || val.Cmp(big.NewRat(1, 1)) > 0 {
		v.Skipped = "text outside the portion grammar or above one"
		return v
	}
	// unreduced numerator / denominator of the base-ten reading
	var num, den *big.Int
	if strings.HasSuffix(c.Text, "%") {
		body := strings.TrimSuffix(c.Text, "%")
		fp := ""
		if i := strings.IndexByte(body, '.'); i >= 0 {
			fp = body[i+1:]
			body = body[:i] + fp
		}
		num, _ = new(big.Int).SetString(body, 10)
		den = new(big.Int).Exp(big.NewInt(10), big.NewInt(int64(2+len(fp))), nil)
		v.Label("form:percent")
	} else {
		parts := strings.Split(c.Text, "/")
		num, _ = new(big.Int).SetString(strings.TrimSpace(parts[0]), 10)
		den, _ = new(big.Int).SetString(strings.TrimSpace(parts[1]), 10)
		v.Label("form:ratio")
	}
	seven := big.NewInt(7)
	total := new(big.Int).Mul(den, seven)
	wantA := new(big.Int).Mul(num, seven)
	wantB := new(big.Int).Sub(total, wantA)

	ec := &gen.ExecCase{Script: &gen.Script{}, Vars: map[string]string{"total": "X " + total.String()}}
	ec.Script.Vars = []gen.VarDecl{{Type: "monetary", Name: "total"}}
	p := gen.Allot{Kind: gen.ALit, Text: c.Text}
	if c.AsVar {
		ec.Script.Vars = append(ec.Script.Vars, gen.VarDecl{Type: "portion", Name: "p"})
		ec.Vars["p"] = c.Text
		p = gen.Allot{Kind: gen.AVar, Text: "p"}
		v.Label("as:variable")
	} else {
		v.Label("as:literal")
	}
	ec.Script.Stmts = []*gen.Stmt{{Kind: gen.StSend, Sent: gen.Var("total"),
		Src: &gen.Src{Kind: gen.SAcct, Addr: gen.Acct("world")},
		Dst: &gen.Dst{Kind: gen.DAllot, Items: []gen.DstItem{
			{Portion: p, To: gen.KOD{Dst: &gen.Dst{Kind: gen.DAcct, Addr: gen.Acct("a")}}},
			{Portion: gen.Allot{Kind: gen.ARemaining}, To: gen.KOD{Dst: &gen.Dst{Kind: gen.DAcct, Addr: gen.Acct("b")}}},
		}}}}
	if len(c.Text)%2 == 0 {
		// the same parse result has already been executed with another total and another portion
		ec.Warm = map[string]string{"total": "X 97"}
		if c.AsVar {
			ec.Warm["p"] = "1/3"
		}
		v.Label("warm")
	}
	r, _ := hx.Run(ec, doubles.Superset)
	if r.Panic != "" {
		return v.Failf(crashClass(r.Panic), "portion %q (%s): panic: %s", c.Text, asWhat(c), firstLines(r.Panic, 10))
	}
	if r.ParseErrors > 0 {
		return v.Failf("rejected", "portion literal %q is in the literal grammar but the script does not parse", c.Text)
	}
	if !r.OK() {
		return v.Failf("rejected", "portion %q (%s), value %s, rejected: %s", c.Text, asWhat(c), val.RatString(), r.Summary())
	}
	cr := hx.Credits(r.Postings)
	gotA, gotB := cr["a"], cr["b"]
	if gotA == nil {
		gotA = new(big.Int)
	}
	if gotB == nil {
		gotB = new(big.Int)
	}
	if gotA.Cmp(wantA) != 0 || gotB.Cmp(wantB) != 0 {
		return v.Failf("value", "portion %q (%s) means %s in base ten: of %s, @a must get %s and @b %s; got %s and %s", c.Text, asWhat(c), val.RatString(), total, wantA, wantB, gotA, gotB)
	}
	// non-trivial: the text reads differently with base auto-detection, is not reduced, has decimals, or is big
	reduced := new(big.Rat).SetFrac(num, den)
	lead0 := false
	for _, part := range strings.FieldsFunc(strings.TrimSuffix(c.Text, "%"), func(r rune) bool { return r == '/' || r == '.' || r == ' ' }) {
		if len(part) > 1 && part[0] == '0' {
			lead0 = true
		}
	}
	v.NonTrivial = lead0 || reduced.Denom().Cmp(den) != 0 || strings.Contains(c.Text, ".") || !den.IsUint64()
	if lead0 {
		v.Label("leading-zero")
	}
	return v
}

func asWhat(c *C13Case) string {
	if c.AsVar {
		return "as a portion variable"
	}
	return "as a literal"
}

// ---------------------------------------------------------------- C13R: round trip of values through metadata

type C13RCase struct {
	Type string `json:"type"`
	// Text of the value, as a plain variable of that type would carry it
	Text string `json:"text"`
	// Literal, if non-empty: the same value written as a literal expression (JSON of gen.Expr)
	Literal *gen.Expr `json:"literal,omitempty"`
	// Arith (numbers and monetaries written through a variable): script 1 also computes
	// `$v - $u` / `$v + $u` with the variable as the left operand - 1: before the value is
	// written, 2: between the two writes. Using a value in an expression does not change it.
	Arith   int    `json:"arith,omitempty"`
	ArithOp string `json:"arithop,omitempty"`
}

func init() {
	ev.Register(&ev.Prop{
		ID:    "C13R",
		Rule:  "(iii) round trip: for each of the six types a generated value (accounts and assets of the literal grammar; strings of any text incl. spaces, quotes, newlines, non-ASCII; numbers and monetaries of any sign and size; portions in [0,1] in every spelling) is written by script 1 with set_account_meta and set_tx_meta (from a plain variable and, where the grammar allows, from a literal); script 2 reads the stored text through a meta() variable of the same type and through a plain variable carrying that text; oracle: script 2 accepts the text, writing the re-read value again gives the identical text (fixed point), the JSON of the transaction-metadata value is the JSON string of that text, and using the re-read value operationally (amount or asset of a send, destination name, split credit, metadata key) gives what the original value gives; non-trivial = the value is outside the ASCII / 63-bit comfort zone or the text is not canonical",
		New:   func() any { return &C13RCase{} },
		Check: checkC13R,
	})
	Generators["C13R"] = func(t *rapid.T, tier string) any {
		bigNum := func(label string) string {
			switch gen.Uniform(t, label+".cls", 5) {
			case 0:
				return fmt.Sprint(gen.Uniform(t, label+".small", 100))
			case 1:
				return "-" + fmt.Sprint(1+gen.Uniform(t, label+".neg", 1000))
			case 2:
				return gen.Pick(t, label+".edge", []string{"9223372036854775807", "9223372036854775808", "-9223372036854775808", "-9223372036854775809", "18446744073709551615", "18446744073709551616", "0"})
			default:
				n := 10 + gen.Uniform(t, label+".nd", 40)
				s := fmt.Sprint(1 + gen.Uniform(t, label+".d0", 9))
				for i := 1; i < n; i++ {
					s += fmt.Sprint(gen.Uniform(t, label+".d", 10))
				}
				if gen.Chance(t, label+".sign", 30) {
					s = "-" + s
				}
				return s
			}
		}
		c := &C13RCase{Type: gen.Pick(t, "type", []string{"account", "asset", "string", "number", "monetary", "portion"})}
		asset := func() string {
			return gen.Pick(t, "asset", []string{"USD", "EUR/2", "COIN", "A", "USD/", "1INCH", "U/S/D", "X9"})
		}
		switch c.Type {
		case "account":
			c.Text = gen.Pick(t, "acct", []string{"a", "users:001", "a-b_c", "A:B:c", "0", "x_1:y-2", "world", "Z"})
			c.Literal = gen.Acct(c.Text)
		case "asset":
			c.Text = asset()
			c.Literal = gen.Asset(c.Text)
		case "string":
			c.Text = gen.Pick(t, "str", []string{"", "hello", "a b", "é", "日本", "🙂", "with \"quotes\"", "line\nbreak", "tab\t", " lead", "trail ", "USD 10", "1/2", "\\", "a\\\"b", "{}", "null", "del:\x7f", "bell\a", "\x01", "\v", "a\u2028b", "\U000e0001", "replacement \ufffd char",
				// texts that look like variable references, format verbs, templates
				"$v", "cost $v!", "$u and $w", "$before$after", "${v}", "{{v}}", "%s %d %v", "\\$v"})
			if !strings.ContainsAny(c.Text, "\"\n\r\\") {
				c.Literal = gen.Str(c.Text)
			}
		case "number":
			c.Text = bigNum("num")
			if n, ok := new(big.Int).SetString(c.Text, 10); ok && n.IsInt64() {
				c.Literal = gen.Num(n)
			}
		case "monetary":
			a, n := asset(), bigNum("mon")
			c.Text = a + " " + n
			if bn, ok := new(big.Int).SetString(n, 10); ok && bn.IsInt64() {
				c.Literal = gen.Mon(gen.Asset(a), gen.Num(bn))
			}
		case "portion":
			c.Text = gen.Pick(t, "por", []string{"1/2", "0/1", "1/1", "2/4", "010/100", "1 / 3", "50%", "12.5%", "0%", "100%", "007%", "0.10%", "33.333%", "1/3", "999999999999999999999/1000000000000000000000", "0.00000000000000000001%"})
			c.Literal = gen.PortionLit(c.Text)
		}
		if gen.Chance(t, "nolit", 50) {
			c.Literal = nil
		}
		if c.Literal == nil && (c.Type == "number" || c.Type == "monetary") && gen.Chance(t, "arith", 40) {
			c.Arith = 1 + gen.Uniform(t, "arith.where", 2)
			c.ArithOp = gen.Pick(t, "arith.op", []string{"-", "+"})
		}
		return c
	}
}

func checkC13R(cc any) *ev.Verdict {
	c := cc.(*C13RCase)
	v := &ev.Verdict{}
	v.Label("type:" + c.Type)
	orig, perr := model.ParseVarText(c.Type, c.Text)
	if perr != nil {
		v.HarnessError = "generated text is not a value of its type: " + perr.Error()
		return v
	}
	// script 1: write the value
	s1 := &gen.ExecCase{Script: &gen.Script{}, Vars: map[string]string{}}
	var valExpr *gen.Expr
	if c.Literal != nil {
		valExpr = c.Literal
		v.Label("from:literal")
	} else {
		s1.Script.Vars = []gen.VarDecl{{Type: c.Type, Name: "v"}}
		s1.Vars["v"] = c.Text
		valExpr = gen.Var("v")
		v.Label("from:variable")
	}
	s1.Script.Stmts = []*gen.Stmt{
		{Kind: gen.StCall, Call: &gen.Call{Fn: "set_account_meta", Args: []*gen.Expr{gen.Acct("holder"), gen.Str("k"), valExpr}}},
		{Kind: gen.StCall, Call: &gen.Call{Fn: "set_tx_meta", Args: []*gen.Expr{gen.Str("k"), valExpr}}},
	}
	if c.Arith != 0 && c.Literal == nil && (c.Type == "number" || c.Type == "monetary") {
		other := "25"
		if c.Type == "monetary" {
			other = c.Text[:strings.IndexByte(c.Text, ' ')] + " 25"
		}
		s1.Script.Vars = append(s1.Script.Vars, gen.VarDecl{Type: c.Type, Name: "u"})
		s1.Vars["u"] = other
		op := c.ArithOp
		if op != "+" {
			op = "-"
		}
		tmp := &gen.Stmt{Kind: gen.StCall, Call: &gen.Call{Fn: "set_tx_meta", Args: []*gen.Expr{gen.Str("tmp"), gen.Infix(op, gen.Var("v"), gen.Var("u"))}}}
		if c.Arith == 1 {
			s1.Script.Stmts = append([]*gen.Stmt{tmp}, s1.Script.Stmts...)
		} else {
			s1.Script.Stmts = []*gen.Stmt{s1.Script.Stmts[0], tmp, s1.Script.Stmts[1]}
		}
		v.Label("arith")
	}
	r1, _ := hx.Run(s1, doubles.Superset)
	if r1.Panic != "" || r1.ParseErrors > 0 {
		return v.Failf("write", "writing %s value %q: %s", c.Type, c.Text, r1.Summary())
	}
	if !r1.OK() {
		return v.Failf("write", "script 1 rejects the %s value %q: %s", c.Type, c.Text, r1.Summary())
	}
	text1, ok := r1.AcctMeta["holder"]["k"]
	if !ok {
		return v.Failf("write", "set_account_meta stored nothing")
	}
	// the stored text denotes the original value
	back, perr := model.ParseVarText(c.Type, text1)
	if perr != nil || !sameVal(orig, back) {
		return v.Failf("stored-text", "%s value %q was stored as %q, which does not denote the same value", c.Type, c.Text, text1)
	}
	// transaction metadata serialises to the same text
	var js string
	if err := json.Unmarshal([]byte(r1.TxMetaJSON["k"]), &js); err != nil || js != text1 {
		return v.Failf("tx-json", "%s value %q: account metadata text %q but transaction metadata JSON %s", c.Type, c.Text, text1, r1.TxMetaJSON["k"])
	}
	// script 2: read it back, through meta() and through a plain variable
	for _, via := range []string{"meta", "meta among other keys of the same account", "plain"} {
		s2 := &gen.ExecCase{Script: &gen.Script{}, Vars: map[string]string{}, Meta: map[string]map[string]string{}}
		if via == "meta" {
			s2.Script.Vars = []gen.VarDecl{{Type: c.Type, Name: "w", Origin: &gen.Call{Fn: "meta", Args: []*gen.Expr{gen.Acct("holder"), gen.Str("k")}}}}
			s2.Meta["holder"] = map[string]string{"k": text1}
		} else if via != "plain" {
			// the value is one of several entries of the account, each read by its own variable
			s2.Script.Vars = []gen.VarDecl{
				{Type: "string", Name: "before", Origin: &gen.Call{Fn: "meta", Args: []*gen.Expr{gen.Acct("holder"), gen.Str("a")}}},
				{Type: c.Type, Name: "w", Origin: &gen.Call{Fn: "meta", Args: []*gen.Expr{gen.Acct("holder"), gen.Str("k")}}},
				{Type: "number", Name: "after", Origin: &gen.Call{Fn: "meta", Args: []*gen.Expr{gen.Acct("holder"), gen.Str("z")}}},
			}
			s2.Meta["holder"] = map[string]string{"a": "some text", "k": text1, "z": "42"}
			s2.Script.Stmts = []*gen.Stmt{
				{Kind: gen.StCall, Call: &gen.Call{Fn: "set_tx_meta", Args: []*gen.Expr{gen.Str("before"), gen.Var("before")}}},
				{Kind: gen.StCall, Call: &gen.Call{Fn: "set_tx_meta", Args: []*gen.Expr{gen.Str("after"), gen.Var("after")}}},
			}
		} else {
			s2.Script.Vars = []gen.VarDecl{{Type: c.Type, Name: "w"}}
			s2.Vars["w"] = text1
		}
		w := gen.Var("w")
		s2.Script.Stmts = append(s2.Script.Stmts, &gen.Stmt{Kind: gen.StCall, Call: &gen.Call{Fn: "set_account_meta", Args: []*gen.Expr{gen.Acct("holder2"), gen.Str("k2"), w}}})
		if via != "plain" {
			// the value written back where it was read from, after another value was written
			// there: the last write counts, and it writes the text that was read
			s2.Script.Stmts = append(s2.Script.Stmts,
				&gen.Stmt{Kind: gen.StCall, Call: &gen.Call{Fn: "set_account_meta", Args: []*gen.Expr{gen.Acct("holder"), gen.Str("k"), gen.Str("something else")}}},
				&gen.Stmt{Kind: gen.StCall, Call: &gen.Call{Fn: "set_account_meta", Args: []*gen.Expr{gen.Acct("holder"), gen.Str("k"), w}}})
		}
		// operational use
		world := &gen.Src{Kind: gen.SAcct, Addr: gen.Acct("world")}
		toD := &gen.Dst{Kind: gen.DAcct, Addr: gen.Acct("d")}
		operational := true
		switch c.Type {
		case "account":
			s2.Script.Stmts = append(s2.Script.Stmts, &gen.Stmt{Kind: gen.StSend, Sent: gen.Mon(gen.Asset("COIN"), gen.NumI(5)), Src: world, Dst: &gen.Dst{Kind: gen.DAcct, Addr: w}})
		case "asset":
			s2.Script.Stmts = append(s2.Script.Stmts, &gen.Stmt{Kind: gen.StSend, Sent: gen.Mon(w, gen.NumI(5)), Src: world, Dst: toD})
		case "number":
			if orig.N.Sign() < 0 {
				operational = false
			} else {
				s2.Script.Stmts = append(s2.Script.Stmts, &gen.Stmt{Kind: gen.StSend, Sent: gen.Mon(gen.Asset("COIN"), w), Src: world, Dst: toD})
			}
		case "monetary":
			if orig.N.Sign() < 0 {
				operational = false
			} else {
				s2.Script.Stmts = append(s2.Script.Stmts, &gen.Stmt{Kind: gen.StSend, Sent: w, Src: world, Dst: toD})
			}
		case "portion":
			s2.Script.Vars = append(s2.Script.Vars, gen.VarDecl{Type: "monetary", Name: "total"})
			total := new(big.Int).Mul(orig.R.Denom(), big.NewInt(3))
			s2.Vars["total"] = "COIN " + total.String()
			s2.Script.Stmts = append(s2.Script.Stmts, &gen.Stmt{Kind: gen.StSend, Sent: gen.Var("total"), Src: world, Dst: &gen.Dst{Kind: gen.DAllot, Items: []gen.DstItem{
				{Portion: gen.Allot{Kind: gen.AVar, Text: "w"}, To: gen.KOD{Dst: toD}},
				{Portion: gen.Allot{Kind: gen.ARemaining}, To: gen.KOD{Dst: &gen.Dst{Kind: gen.DAcct, Addr: gen.Acct("rest")}}},
			}}})
		case "string":
			s2.Script.Stmts = append(s2.Script.Stmts, &gen.Stmt{Kind: gen.StCall, Call: &gen.Call{Fn: "set_tx_meta", Args: []*gen.Expr{w, gen.NumI(1)}}})
		}
		r2, _ := hx.Run(s2, doubles.Superset)
		if r2.Panic != "" || r2.ParseErrors > 0 {
			return v.Failf("read", "reading back %q as %s (%s): %s", text1, c.Type, via, r2.Summary())
		}
		if !r2.OK() {
			return v.Failf("read", "the text %q, stored for the %s value %q, is not accepted when read back through a %s variable: %s", text1, c.Type, c.Text, via, r2.Summary())
		}
		text2 := r2.AcctMeta["holder2"]["k2"]
		if via != "plain" {
			if back := r2.AcctMeta["holder"]["k"]; back != text1 {
				return v.Failf("written-back", "%s value read from holder.k (%q), overwritten there and then written back: the entry ends as %q", c.Type, text1, back)
			}
		}
		if text2 != text1 {
			return v.Failf("fixed-point", "%s value %q stored as %q; read back (%s) and stored again it becomes %q", c.Type, c.Text, text1, via, text2)
		}
		if !operational {
			continue
		}
		var got, want string
		switch c.Type {
		case "account":
			want = "world->" + orig.S + " COIN 5"
			got = postingsString(r2.Postings)
		case "asset":
			want = "world->d " + orig.S + " 5"
			got = postingsString(r2.Postings)
		case "number":
			want = "world->d COIN " + orig.N.String()
			if orig.N.Sign() == 0 {
				want = ""
			}
			got = postingsString(r2.Postings)
		case "monetary":
			want = "world->d " + orig.S + " " + orig.N.String()
			if orig.N.Sign() == 0 {
				want = ""
			}
			got = postingsString(r2.Postings)
		case "portion":
			share := new(big.Int).Mul(orig.R.Num(), big.NewInt(3))
			cr := hx.Credits(r2.Postings)
			g := cr["d"]
			if g == nil {
				g = new(big.Int)
			}
			want, got = share.String(), g.String()
		case "string":
			want = "found"
			if _, ok := r2.TxMeta[orig.S]; ok {
				got = "found"
			} else {
				got = fmt.Sprintf("keys %v", gen.SortedKeys(r2.TxMeta))
			}
		}
		if got != want {
			return v.Failf("operational", "%s value %q read back through a %s variable behaves differently: expected %q, got %q", c.Type, c.Text, via, want, got)
		}
	}
	v.NonTrivial = gen.HasNonASCII(c.Text) || text1 != c.Text || (orig.N != nil && !orig.N.IsInt64()) || strings.ContainsAny(c.Text, " \"\n\t\\")
	return v
}

func sameVal(a, b model.Val) bool {
	if a.T != b.T {
		return false
	}
	switch a.T {
	case model.TNumber:
		return a.N.Cmp(b.N) == 0
	case model.TMonetary:
		return a.S == b.S && a.N.Cmp(b.N) == 0
	case model.TPortion:
		return a.R.Cmp(b.R) == 0
	}
	return a.S == b.S
}
