package props

import (
	"encoding/json"
	"fmt"
	"os"
	"path/filepath"
	"runtime/debug"
	"sort"
	"strconv"
	"testing"

	"pgregory.net/rapid"

	"verifharness/ev"
)

func envInt(name string, def int) int {
	if v, err := strconv.Atoi(os.Getenv(name)); err == nil {
		return v
	}
	return def
}

type session struct {
	p         *ev.Prop
	rec       *ev.Recorder
	findings  ev.Findings
	outdir    string
	shard     int
	fileShard int
	failed    bool
	printedK  map[string]bool
}

func safeCheck(p *ev.Prop, c any) (v *ev.Verdict) {
	defer func() {
		if r := recover(); r != nil {
			v = &ev.Verdict{HarnessError: fmt.Sprintf("panic in harness code: %v\n%s", r, debug.Stack())}
		}
	}()
	return p.Check(c)
}

// handle returns "" when the case is fine, otherwise a failure message.
func (s *session) handle(c any, enumerated bool, replayPath string) string {
	v := safeCheck(s.p, c)
	s.rec.Observe(c, v, enumerated)
	if v.HarnessError != "" {
		path := filepath.Join(s.outdir, fmt.Sprintf("harness-error-%d.json", s.fileShard))
		ev.WriteReplay(path, s.p.ID, c, &ev.Verdict{Violation: "HARNESS: " + v.HarnessError})
		fmt.Printf("VERIF-HARNESS-ERROR property=%s file=%s :: %s\n", s.p.ID, path, v.HarnessError)
		return "harness error: " + v.HarnessError
	}
	if v.Violation == "" {
		return ""
	}
	if k := s.findings.Known(s.p.ID, v.Class); k != nil {
		s.rec.KnownHits[k.ID]++
		if !s.printedK[k.ID] {
			s.printedK[k.ID] = true
			fmt.Printf("VERIF-KNOWN property=%s id=%s :: %s\n", s.p.ID, k.ID, k.What)
		}
		return ""
	}
	path := replayPath
	if path == "" {
		path = filepath.Join(s.outdir, fmt.Sprintf("violation-%d.json", s.fileShard))
		ev.WriteReplay(path, s.p.ID, c, v)
	}
	fmt.Printf("VERIF-VIOLATION property=%s replay=%s class=%q :: %s\n", s.p.ID, path, v.Class, v.Violation)
	return "violation: " + v.Violation
}

// TestProp is the single entry point: VERIF_PROP selects the property.
func TestProp(t *testing.T) {
	id := os.Getenv("VERIF_PROP")
	p := ev.Registry[id]
	if p == nil {
		t.Skipf("VERIF_PROP=%q not registered", id)
	}
	tier := os.Getenv("VERIF_TIER")
	if tier == "" {
		tier = "quick"
	}
	s := &session{p: p, rec: ev.NewRecorder(id), outdir: os.Getenv("VERIF_OUT"), shard: envInt("VERIF_SHARD", 0), printedK: map[string]bool{}}
	if s.outdir == "" {
		s.outdir = t.TempDir()
	}
	nshards := envInt("VERIF_NSHARDS", 1)
	var err error
	s.findings, err = ev.LoadFindings(os.Getenv("VERIF_KNOWN"))
	if err != nil {
		t.Fatalf("known findings: %v", err)
	}
	defer func() {
		if err := s.rec.Write(s.outdir, s.fileShard); err != nil {
			t.Errorf("writing report: %v", err)
		}
	}()

	s.fileShard = envInt("VERIF_FILE_SHARD", s.shard)
	if s.shard == 0 {
		mb, _ := json.Marshal(map[string]any{"rule": p.Rule, "assumptions": p.Assumptions})
		os.MkdirAll(s.outdir, 0o755)
		os.WriteFile(filepath.Join(s.outdir, "meta-"+id+".json"), mb, 0o644)
	}

	// 1. replay tier
	if f := os.Getenv("VERIF_REPLAY"); f != "" {
		c, err := ev.ReadReplay(f, p)
		if err != nil {
			t.Fatalf("replay file: %v", err)
		}
		if msg := s.handle(c, false, f); msg != "" {
			t.Fatal(msg)
		}
		fmt.Printf("VERIF-REPLAY-OK property=%s file=%s\n", id, f)
		return
	}
	if dir := os.Getenv("VERIF_CORPUS"); dir != "" && s.shard == 0 {
		files, _ := filepath.Glob(filepath.Join(dir, "*.json"))
		sort.Strings(files)
		for _, f := range files {
			c, err := ev.ReadReplay(f, p)
			if err != nil {
				t.Fatalf("corpus file %s: %v", f, err)
			}
			if msg := s.handle(c, false, f); msg != "" {
				t.Fatal(msg)
			}
			s.rec.Labels["corpus_replayed"]++
		}
	}
	if os.Getenv("VERIF_REPLAY_ONLY") != "" {
		return
	}

	// 2. exhaustive sub-spaces
	if p.Enumerate != nil {
		var failure string
		what, complete := p.Enumerate(tier, s.shard, nshards, func(c any) bool {
			if msg := s.handle(c, true, ""); msg != "" {
				failure = msg
				return false
			}
			return true
		})
		if failure != "" {
			t.Fatal(failure)
		}
		if complete {
			s.rec.Exhaustive = append(s.rec.Exhaustive, what)
		} else {
			s.rec.Incomplete = append(s.rec.Incomplete, what)
		}
	}

	// 3. generated search
	g := Generators[id]
	if g == nil {
		return
	}
	rapid.Check(t, func(rt *rapid.T) {
		c := g(rt, tier)
		if msg := s.handle(c, false, ""); msg != "" {
			rt.Fatalf("%s", msg)
		}
	})
}
