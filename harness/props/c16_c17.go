package props

import (
	"fmt"
	"sort"
	"strings"

	"pgregory.net/rapid"

	"github.com/formancehq/numscript/verifapi"

	"verifharness/doubles"
	"verifharness/ev"
	"verifharness/gen"
	"verifharness/hx"
	"verifharness/model"
)

// ---------------------------------------------------------------- C16 (a): valid scripts get no error

func staticKnobs(t *rapid.T, tier string) gen.Knobs {
	k := gen.DefaultKnobs()
	k.PBalanceOrigin = 30
	k.OverdraftFlag = gen.Chance(t, "odflag", 40)
	k.POrigin = 25
	k.PCall = 14
	k.PSave = 10
	k.PVarRepr = 35
	k.PInfix = 15
	k.PBounded = 25
	k.PSendAll = 30
	k.MaxWidth = 4
	if tier == "thorough" {
		k.MaxDepth = 4
	}
	return k
}

func init() {
	ev.Register(&ev.Prop{
		ID:    "C16",
		Rule:  "(a) statically valid scripts from the typed generator: the six types, variables in every syntactic position (sent values, caps, overdraft bounds, portions, accounts, function arguments, origins), meta()/balance()/overdraft() origins, infix expressions of equal types, portions as ratios / percentages / variables / remaining, send-all over plain and bounded-overdraft accounts, in-order lists and caps around anything; oracle: no diagnostic of error severity (warnings are free); non-trivial = >= 4 distinct constructs and >= 1 variable",
		New:   newExecCase,
		Check: checkC16,
	})
	Generators["C16"] = func(t *rapid.T, tier string) any {
		return gen.NewTG(t, staticKnobs(t, tier)).Case()
	}
	ev.Register(&ev.Prop{
		ID:    "C16N",
		Rule:  "(b) the same scripts after name edits only (delete / duplicate / rename a declaration, rename or add a use, duplicate a use into an extra argument of a call, refer to a later declaration from an origin); oracle: the multiset of (kind in {undeclared, repeated, unused}, name, token range) reported equals an independent name model over the generator's tree and printer spans - a use with no earlier declaration is undeclared, every declaration of a name after the first is repeated, a use inside the origin of its own declaration counts as not yet declared; a first declaration with no later use is unused; a variable used only before its declaration may or may not be reported unused; non-trivial = the edit changed the expected multiset",
		New:   func() any { return &C16NCase{} },
		Check: checkC16N,
	})
	Generators["C16N"] = genC16N
}

func errorDiagnostics(text string) (errs []string, all []verifapi.Diagnostic, pan string) {
	defer func() {
		if r := recover(); r != nil {
			pan = fmt.Sprint(r)
		}
	}()
	res := verifapi.CheckSource(text)
	for _, d := range res.Diagnostics {
		if d.Kind.Severity() == verifapi.ErrorSeverity {
			errs = append(errs, fmt.Sprintf("%d:%d-%d:%d %T %s", d.Range.Start.Line, d.Range.Start.Character, d.Range.End.Line, d.Range.End.Character, d.Kind, d.Kind.Message()))
		}
	}
	return errs, res.Diagnostics, ""
}

func checkC16(c any) *ev.Verdict {
	ec := c.(*gen.ExecCase)
	v := &ev.Verdict{}
	scriptLabels(ec, v)
	text := gen.PrintCanonical(ec.Script)
	errs, all, pan := errorDiagnostics(text)
	if pan != "" {
		v.Skipped = "checker panic (C18 owns this)"
		return v
	}
	for _, d := range all {
		v.Label(fmt.Sprintf("diag:%T", d.Kind))
	}
	if len(errs) > 0 {
		class := "false-error"
		if strings.Contains(errs[0], "InvalidUnboundedAccount") {
			class = "false-error-unbounded"
		}
		return v.Failf(class, "statically valid script receives %d error(s): %s\nscript: %s", len(errs), errs[0], text)
	}
	v.NonTrivial = len(ec.Script.Features()) >= 4 && len(ec.Script.Vars) >= 1
	return v
}

// ---------------------------------------------------------------- C16N: name diagnostics

type C16NCase struct {
	Script *gen.Script `json:"script"`
	Edit   string      `json:"edit"`
}

func (c *C16NCase) Display() any {
	return map[string]any{"edit": c.Edit, "script": gen.PrintCanonical(c.Script.Clone())}
}

// useSlots returns every variable-use expression and every portion-variable allotment.
type nameUse struct {
	name string
	span *gen.Span
	decl int // index of the declaration whose origin contains the use, -1 for statements
	ord  int
}

func genC16N(t *rapid.T, tier string) any {
	ec := gen.NewTG(t, staticKnobs(t, tier)).Case()
	s := ec.Script
	c := &C16NCase{Script: s}
	n := 1 + gen.Uniform(t, "nedits", 2)
	for i := 0; i < n; i++ {
		var vars []*gen.Expr
		s.WalkExprs(func(e *gen.Expr) {
			if e.Kind == gen.EVar {
				vars = append(vars, e)
			}
		})
		op := gen.Uniform(t, "edit", 8)
		switch {
		case op == 0 && len(s.Vars) > 0: // delete a declaration
			j := gen.Uniform(t, "del", len(s.Vars))
			c.Edit += "delete-declaration $" + s.Vars[j].Name + "; "
			s.Vars = append(s.Vars[:j], s.Vars[j+1:]...)
		case op == 1 && len(s.Vars) > 0: // duplicate a declaration
			j := gen.Uniform(t, "dup", len(s.Vars))
			d := s.Vars[j]
			if d.Origin != nil {
				cp := *d.Origin
				d.Origin = &cp
			}
			at := gen.Uniform(t, "dupat", len(s.Vars)+1)
			s.Vars = append(s.Vars[:at], append([]gen.VarDecl{d}, s.Vars[at:]...)...)
			c.Edit += "duplicate-declaration $" + d.Name + "; "
		case op == 2 && len(s.Vars) > 0: // rename a declaration
			j := gen.Uniform(t, "ren", len(s.Vars))
			c.Edit += "rename-declaration $" + s.Vars[j].Name + "; "
			s.Vars[j].Name = "renamed_" + s.Vars[j].Name
		case op == 3 && len(vars) > 0: // rename a use
			e := gen.Pick(t, "use", vars)
			c.Edit += "rename-use $" + e.Text + "; "
			// a fresh name - or a name that means something else in the language (a built-in
			// function, a type, a keyword): still not a declared variable
			e.Text = gen.Pick(t, "edit.undeclared.name", []string{"nosuch_" + e.Text, "nosuch_" + e.Text, "balance", "meta", "overdraft", "set_tx_meta", "set_account_meta", "number", "kept", "remaining", "world"})
		case op == 4 && len(s.Vars) > 0: // add a use (as a metadata value: any type is welcome there)
			j := gen.Uniform(t, "adduse", len(s.Vars))
			s.Stmts = append(s.Stmts, &gen.Stmt{Kind: gen.StCall, Call: &gen.Call{Fn: "set_tx_meta", Args: []*gen.Expr{gen.Str("extra"), gen.Var(s.Vars[j].Name)}}})
			c.Edit += "add-use $" + s.Vars[j].Name + "; "
		case op == 5 && len(s.Vars) > 1: // an origin refers to a later declaration
			j := gen.Uniform(t, "early", len(s.Vars)-1)
			l := j + 1 + gen.Uniform(t, "later", len(s.Vars)-j-1)
			if gen.Chance(t, "self", 25) {
				l = j // the origin mentions the variable being declared
			}
			s.Vars[j].Origin = &gen.Call{Fn: "meta", Args: []*gen.Expr{gen.Var(s.Vars[l].Name), gen.Str("k")}}
			c.Edit += "use-before-declaration $" + s.Vars[l].Name + "; "
		case op == 7: // a use duplicated into an extra argument of a call (declared or not)
			name := gen.Pick(t, "edit.extra.name", []string{"nosuch_extra", "nosuch_extra", "balance", "set_tx_meta", "account", "max"})
			if len(s.Vars) > 0 && gen.Chance(t, "extra.declared", 60) {
				name = s.Vars[gen.Uniform(t, "extra.var", len(s.Vars))].Name
			}
			call := gen.Pick(t, "extra.call", []*gen.Call{
				{Fn: "set_tx_meta", Args: []*gen.Expr{gen.Str("k"), gen.NumI(1), gen.Var(name)}},
				{Fn: "set_account_meta", Args: []*gen.Expr{gen.Acct("a"), gen.Str("k"), gen.NumI(1), gen.Var(name), gen.Var(name)}},
			})
			s.Stmts = append(s.Stmts, &gen.Stmt{Kind: gen.StCall, Call: call})
			c.Edit += "use-in-extra-argument $" + name + "; "
		case op == 6 && len(vars) > 0 && len(s.Vars) > 0: // retarget a use to another declared variable
			e := gen.Pick(t, "retarget", vars)
			j := gen.Uniform(t, "retargetto", len(s.Vars))
			c.Edit += "retarget-use $" + e.Text + "->$" + s.Vars[j].Name + "; "
			e.Text = s.Vars[j].Name
		}
	}
	if c.Edit == "" {
		c.Edit = "none"
	}
	return c
}

func spanKey(sp *gen.Span) string {
	if sp == nil {
		return "?"
	}
	return fmt.Sprintf("%d:%d-%d:%d", sp.SL, sp.SC, sp.EL, sp.EC)
}

func checkC16N(cc any) *ev.Verdict {
	c := cc.(*C16NCase)
	v := &ev.Verdict{}
	for _, e := range strings.Split(c.Edit, "; ") {
		if e != "" {
			v.Label("edit:" + strings.SplitN(e, " ", 2)[0])
		}
	}
	s := c.Script.Clone()
	p := gen.Print(s, gen.Canonical)
	// ---- name model: declarations and uses in textual order
	var uses []nameUse
	ord := 0
	collect := func(e *gen.Expr, decl int) {
		var walk func(e *gen.Expr)
		walk = func(e *gen.Expr) {
			if e == nil {
				return
			}
			if e.Kind == gen.EVar {
				uses = append(uses, nameUse{e.Text, e.Span, decl, ord})
				ord++
			}
			walk(e.L)
			walk(e.R)
		}
		walk(e)
	}
	for i, d := range s.Vars {
		if d.Origin != nil {
			for _, a := range d.Origin.Args {
				collect(a, i)
			}
		}
	}
	var ws func(x *gen.Src)
	ws = func(x *gen.Src) {
		if x == nil {
			return
		}
		collect(x.Addr, -1)
		collect(x.Bound, -1)
		collect(x.Cap, -1)
		for _, y := range x.Subs {
			ws(y)
		}
		for i := range x.Items {
			if x.Items[i].Portion.Kind == gen.AVar {
				uses = append(uses, nameUse{x.Items[i].Portion.Text, x.Items[i].Portion.Span, -1, ord})
				ord++
			}
			ws(x.Items[i].From)
		}
		ws(x.From)
	}
	var wd func(x *gen.Dst)
	wk := func(k *gen.KOD) {
		if k != nil && !k.Kept {
			wd(k.Dst)
		}
	}
	wd = func(x *gen.Dst) {
		if x == nil {
			return
		}
		collect(x.Addr, -1)
		for i := range x.Clauses {
			collect(x.Clauses[i].Cap, -1)
			wk(&x.Clauses[i].To)
		}
		wk(x.Remaining)
		for i := range x.Items {
			if x.Items[i].Portion.Kind == gen.AVar {
				uses = append(uses, nameUse{x.Items[i].Portion.Text, x.Items[i].Portion.Span, -1, ord})
				ord++
			}
			wk(&x.Items[i].To)
		}
	}
	for _, st := range s.Stmts {
		collect(st.Sent, -1)
		ws(st.Src)
		wd(st.Dst)
		collect(st.SaveFrom, -1)
		if st.Call != nil {
			for _, a := range st.Call.Args {
				collect(a, -1)
			}
		}
	}
	firstDecl := map[string]int{}
	want := map[string]int{}
	optional := map[string]bool{}
	selfRef := false
	for i, d := range s.Vars {
		if _, ok := firstDecl[d.Name]; ok {
			want["repeated|"+d.Name+"|"+spanKey(d.NameSpan)]++
		} else {
			firstDecl[d.Name] = i
		}
	}
	usedAfter := map[string]bool{}
	usedBefore := map[string]bool{}
	for _, u := range uses {
		fd, declared := firstDecl[u.name]
		switch {
		case !declared:
			want["undeclared|"+u.name+"|"+spanKey(u.span)]++
		case u.decl >= 0 && fd == u.decl:
			// a declaration's origin mentions the variable being declared: not yet declared
			selfRef = true
			want["undeclared|"+u.name+"|"+spanKey(u.span)]++
			usedBefore[u.name] = true
		case u.decl >= 0 && fd > u.decl:
			want["undeclared|"+u.name+"|"+spanKey(u.span)]++
			usedBefore[u.name] = true
		default:
			usedAfter[u.name] = true
		}
	}
	if selfRef {
		v.Label("self-reference")
	}
	for name, i := range firstDecl {
		if !usedAfter[name] {
			k := "unused|" + name + "|" + spanKey(s.Vars[i].NameSpan)
			if usedBefore[name] {
				optional[k] = true
			} else {
				want[k]++
			}
		}
	}
	// ---- real diagnostics
	got := map[string]int{}
	printedText := p.Text
	pan := func() (pmsg string) {
		defer func() {
			if r := recover(); r != nil {
				pmsg = fmt.Sprint(r)
			}
		}()
		res := verifapi.CheckSource(printedText)
		for _, d := range res.Diagnostics {
			rk := fmt.Sprintf("%d:%d-%d:%d", d.Range.Start.Line, d.Range.Start.Character, d.Range.End.Line, d.Range.End.Character)
			switch k := d.Kind.(type) {
			case *verifapi.DiagUnboundVariable:
				got["undeclared|"+k.Name+"|"+rk]++
			case *verifapi.DiagDuplicateVariable:
				got["repeated|"+k.Name+"|"+rk]++
			case *verifapi.DiagUnusedVar:
				got["unused|"+k.Name+"|"+rk]++
			case *verifapi.DiagParsing:
				got["PARSE-ERROR"]++
			}
		}
		return ""
	}()
	if pan != "" {
		v.Skipped = "checker panic (C18 owns this)"
		return v
	}
	if got["PARSE-ERROR"] > 0 {
		v.HarnessError = "edited script does not parse: " + p.Text
		return v
	}
	for k := range optional {
		delete(got, k)
	}
	var diffs []string
	keys := map[string]bool{}
	for k := range want {
		keys[k] = true
	}
	for k := range got {
		keys[k] = true
	}
	for k := range keys {
		if want[k] != got[k] {
			diffs = append(diffs, fmt.Sprintf("%s: expected %d, reported %d", k, want[k], got[k]))
		}
	}
	sort.Strings(diffs)
	if len(diffs) > 0 {
		class := "names"
		return v.Failf(class, "name diagnostics differ from the name model (kind|name|range): %s\nedit: %s\nscript: %s", strings.Join(diffs, "; "), c.Edit, p.Text)
	}
	v.NonTrivial = len(want) > 0 && c.Edit != "none"
	return v
}

// ---------------------------------------------------------------- C17

type C17Case struct {
	Case *gen.ExecCase `json:"case"`
	Edit string        `json:"edit"`
}

func (c *C17Case) Display() any {
	return map[string]any{"edit": c.Edit, "case": c.Case.Display()}
}

func init() {
	ev.Register(&ev.Prop{
		ID:    "C17",
		Rule:  "well-typed generated scripts with generous balances (so that every statement is reached) x one or two type-breaking edits (expression replaced by a literal or variable of another type, infix operands of different types, undeclared or mis-declared variable, wrong arity, unknown or misplaced function, unknown type, allotment / unbounded source directly under send-all) x well-typed variable values; oracle: if the checker reports no error-severity diagnostic, execution does not fail with a type error, unbound variable, unbound function, bad arity or unknown type; if it reports nothing at all, execution additionally does not fail with a send-all shape error; non-trivial = the checker is silent about errors on an edited script (the class that can fail), or flags it and the run indeed fails statically",
		New:   func() any { return &C17Case{} },
		Check: checkC17,
	})
	Generators["C17"] = genC17
}

func genC17(t *rapid.T, tier string) any {
	k := staticKnobs(t, tier)
	k.PWorldFallback = 80
	k.PRich = 45
	k.PNegBal = 3
	k.MaxStmts = 3
	k.PBalanceOrigin = 15
	ec := gen.NewTG(t, k).Case()
	c := &C17Case{Case: ec}
	s := ec.Script
	n := 1 + gen.Uniform(t, "nedits", 2)
	for i := 0; i < n; i++ {
		slots := exprSlots(s)
		if len(slots) == 0 {
			break
		}
		lits := []*gen.Expr{gen.NumI(3), gen.Str("s"), gen.Asset("USD"), gen.PortionLit("1/2"), gen.Acct("a"), gen.Mon(gen.Asset("USD"), gen.NumI(1))}
		switch gen.Uniform(t, "edit", 13) {
		case 11: // an origin refers to a variable declared later
			if len(s.Vars) > 1 {
				j := gen.Uniform(t, "early", len(s.Vars)-1)
				l := j + 1 + gen.Uniform(t, "later", len(s.Vars)-j-1)
				if gen.Chance(t, "self", 30) {
					l = j
				}
				if s.Vars[l].Type == "account" {
					delete(ec.Vars, s.Vars[j].Name)
					s.Vars[j].Origin = &gen.Call{Fn: "meta", Args: []*gen.Expr{gen.Var(s.Vars[l].Name), gen.Str("k")}}
					c.Edit += "origin-uses-later-declaration; "
				}
			}
		case 12: // unbounded overdraft on an account *variable* directly under send-all
			for _, st := range s.Stmts {
				if st.Kind == gen.StSend && st.All {
					s.Vars = append(s.Vars, gen.VarDecl{Type: "account", Name: "shapeacct"})
					ec.Vars["shapeacct"] = "a"
					inner := &gen.Src{Kind: gen.SOver, Addr: gen.Var("shapeacct")}
					if gen.Chance(t, "wrapv", 50) {
						st.Src = &gen.Src{Kind: gen.SInorder, Subs: []*gen.Src{st.Src, inner}}
					} else {
						st.Src = inner
					}
					c.Edit += "send-all-shape-variable; "
					break
				}
			}
		case 0, 1: // literal of another type
			e := gen.Pick(t, "slot", slots)
			*e = *gen.Pick(t, "lit", lits)
			c.Edit += "literal-of-another-type; "
		case 2: // infix with operands of different types
			e := gen.Pick(t, "slot", slots)
			if e.Kind == gen.ENum || e.Kind == gen.EMon {
				old := *e
				other := gen.Pick(t, "other", lits)
				if gen.Chance(t, "side", 50) {
					*e = *gen.Infix(gen.Pick(t, "op", []string{"+", "-"}), &old, other)
				} else if other.Kind != gen.EInfix {
					*e = *gen.Infix(gen.Pick(t, "op", []string{"+", "-"}), other, &old)
				}
				c.Edit += "infix-operand-types; "
			}
		case 3: // infix in a position of another type
			e := gen.Pick(t, "slot", slots)
			if e.Kind == gen.EAcct || e.Kind == gen.EAsset || e.Kind == gen.EStr {
				*e = *gen.Infix("+", gen.NumI(1), gen.NumI(2))
				c.Edit += "infix-result-type; "
			}
		case 4: // undeclared variable
			e := gen.Pick(t, "slot", slots)
			*e = *gen.Var(gen.Pick(t, "c17.undeclared.name", []string{"undeclared", "undeclared", "balance", "meta", "overdraft", "set_tx_meta", "set_account_meta", "monetary", "source", "allowing"}))
			c.Edit += "undeclared-variable; "
		case 5: // mis-declared variable: change the declared type, keep a value of the new type
			if len(s.Vars) > 0 {
				j := gen.Uniform(t, "decl", len(s.Vars))
				if s.Vars[j].Origin == nil {
					nt := gen.Pick(t, "newtype", []string{"monetary", "account", "portion", "asset", "number", "string"})
					if nt != s.Vars[j].Type {
						s.Vars[j].Type = nt
						ec.Vars[s.Vars[j].Name] = map[string]string{"monetary": "USD 5", "account": "a", "portion": "1/2", "asset": "USD", "number": "5", "string": "s"}[nt]
						c.Edit += "mis-declared-variable; "
					}
				}
			}
		case 6: // wrong arity / unknown function
			call := gen.Pick(t, "call", []*gen.Call{
				{Fn: "set_tx_meta", Args: []*gen.Expr{gen.Str("k")}},
				{Fn: "set_tx_meta", Args: []*gen.Expr{gen.Str("k"), gen.NumI(1), gen.NumI(2)}},
				{Fn: "set_account_meta", Args: []*gen.Expr{gen.Acct("a"), gen.Str("k")}},
				{Fn: "foo", Args: []*gen.Expr{gen.NumI(1)}},
				{Fn: "balance", Args: []*gen.Expr{gen.Acct("a"), gen.Asset("USD")}},
				{Fn: "set_tx_meta", Args: []*gen.Expr{gen.NumI(1), gen.NumI(2)}},
				{Fn: "set_account_meta", Args: []*gen.Expr{gen.Str("a"), gen.Str("k"), gen.NumI(1)}},
			})
			at := gen.Uniform(t, "at", len(s.Stmts)+1)
			s.Stmts = append(s.Stmts[:at], append([]*gen.Stmt{{Kind: gen.StCall, Call: call}}, s.Stmts[at:]...)...)
			c.Edit += "bad-call; "
		case 7: // origin edits
			bad := gen.Pick(t, "origin", []gen.VarDecl{
				{Type: "number", Name: "o1", Origin: &gen.Call{Fn: "foo", Args: []*gen.Expr{gen.Acct("a")}}},
				{Type: "monetary", Name: "o2", Origin: &gen.Call{Fn: "balance", Args: []*gen.Expr{gen.Acct("a")}}},
				{Type: "monetary", Name: "o3", Origin: &gen.Call{Fn: "balance", Args: []*gen.Expr{gen.Asset("USD"), gen.Acct("a")}}},
				{Type: "number", Name: "o4", Origin: &gen.Call{Fn: "set_tx_meta", Args: []*gen.Expr{gen.Str("k"), gen.NumI(1)}}},
				{Type: "string", Name: "o5", Origin: &gen.Call{Fn: "meta", Args: []*gen.Expr{gen.Acct("a"), gen.Str("k"), gen.Str("x")}}},
			})
			s.Vars = append(s.Vars, bad)
			if ec.Meta["a"] == nil {
				ec.Meta["a"] = map[string]string{}
			}
			ec.Meta["a"]["k"] = "text"
			c.Edit += "bad-origin; "
		case 8: // unknown type
			if len(s.Vars) > 0 {
				j := gen.Uniform(t, "decl", len(s.Vars))
				s.Vars[j].Type = gen.Pick(t, "badtype", []string{"int", "monetaries", "acct", "any", "accounts"})
				c.Edit += "unknown-type; "
			}
		case 9, 10: // send-all shape
			for _, st := range s.Stmts {
				if st.Kind == gen.StSend && st.All {
					var inner *gen.Src
					if gen.Chance(t, "shape", 50) {
						n := 1 + gen.Uniform(t, "shape.n", 3)
						inner = &gen.Src{Kind: gen.SAllot}
						for i := 0; i < n; i++ {
							p := gen.Allot{Kind: gen.ALit, Text: fmt.Sprintf("1/%d", n)}
							inner.Items = append(inner.Items, gen.SrcItem{Portion: p, From: &gen.Src{Kind: gen.SAcct, Addr: gen.Acct("a")}})
						}
					} else {
						inner = gen.Pick(t, "unb", []*gen.Src{
							{Kind: gen.SOver, Addr: gen.Acct("a")},
							{Kind: gen.SAcct, Addr: gen.Acct("world")},
						})
					}
					if gen.Chance(t, "wrap", 50) {
						st.Src = &gen.Src{Kind: gen.SInorder, Subs: []*gen.Src{st.Src, inner}}
					} else {
						st.Src = inner
					}
					c.Edit += "send-all-shape; "
					break
				}
			}
		}
	}
	if c.Edit == "" {
		c.Edit = "none"
	}
	return c
}

var staticClasses = map[string]bool{
	model.ETypeError: true, model.EUnboundVariable: true, model.EUnboundFunction: true, model.EBadArity: true, model.EInvalidType: true,
}

func checkC17(cc any) *ev.Verdict {
	c := cc.(*C17Case)
	v := &ev.Verdict{}
	for _, e := range strings.Split(c.Edit, "; ") {
		if e != "" {
			v.Label("edit:" + e)
		}
	}
	text := gen.PrintCanonical(c.Case.Script)
	errs, all, pan := errorDiagnostics(text)
	if pan != "" {
		v.Skipped = "checker panic (C18 owns this)"
		return v
	}
	for _, d := range all {
		if _, ok := d.Kind.(*verifapi.DiagParsing); ok {
			v.HarnessError = "edited script does not parse: " + text
			return v
		}
	}
	r, _ := hx.Run(c.Case, doubles.Superset)
	outcomeLabel(r, v)
	if r.Panic != "" {
		v.Skipped = "execution panic (C12 owns this)"
		return v
	}
	switch {
	case len(errs) > 0:
		v.Label("checker:error")
		v.NonTrivial = staticClasses[r.ErrClass]
	case len(all) > 0:
		v.Label("checker:warnings-only")
	default:
		v.Label("checker:silent")
	}
	if len(errs) == 0 {
		if c.Edit != "none" {
			v.NonTrivial = true
		}
		if staticClasses[r.ErrClass] {
			class := "unsound"
			if strings.Contains(c.Edit, "infix") {
				class = "unsound-infix"
			}
			return v.Failf(class, "the checker reports no error but execution fails with %s\nedit: %s\nscript: %s\nvars: %v", r.Summary(), c.Edit, text, c.Case.Vars)
		}
	}
	if len(all) == 0 && isShape(r.ErrClass) {
		return v.Failf("unsound-shape", "the checker reports nothing at all but execution fails because of the shape of a send-all source: %s\nscript: %s", r.Summary(), text)
	}
	return v
}
