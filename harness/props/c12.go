package props

import (
	"errors"
	"fmt"
	"math/big"
	"strings"

	"pgregory.net/rapid"

	"verifharness/doubles"
	"verifharness/ev"
	"verifharness/gen"
	"verifharness/hx"
	"verifharness/model"
)

// ---------------------------------------------------------------- C12A: arbitrary inputs

var varTexts = []string{"", " ", "0", "1", "-1", "42", "007", "+5", "1e3", "0x10", "1_000", "99999999999999999999999999", "-99999999999999999999999999", "12x", "1.5",
	"USD", "USD 10", "USD  10", "USD 10 ", " USD 10", "USD -5", "USD ten", "EUR/2 99999999999999999999", "USD 1 2", "10 USD", "COIN 0",
	"1/2", "1/0", "0/1", "3/2", "2/1", "-1/2", "1 / 3", "1/ 3", "1  /  3", "50%", "150%", "0.5%", "12.5%", ".5%", "5.%", "%", "1/2/3", "010%", "1/010",
	"a", "world", "users:001", "a b", "@a", "", "é", "🙂", "\x00", "null", "{}"}

func init() {
	ev.Register(&ev.Prop{
		ID:    "C12",
		Rule:  "(A) arbitrary inputs: grammar-complete scripts (well- and ill-typed, integer literals within 64 bits) and typed scripts that parse without errors x arbitrary variable texts (garbage, near-misses of every type's syntax, missing entries) x random balance sheets and metadata; oracle: no panic; error xor result on ParseResult.Run and on interpreter.RunProgram (nil result with an error); the error is one of the interpreter's typed errors; non-trivial = an error, or a run with >= 1 posting",
		New:   newExecCase,
		Check: checkC12A,
	})
	Generators["C12"] = func(t *rapid.T, tier string) any {
		var ec *gen.ExecCase
		if gen.Chance(t, "c12.gg", 55) {
			g := &gen.GG{T: t, MaxDepth: 2, MaxWidth: 3, NoHugeNumbers: true}
			if tier == "thorough" {
				g.MaxDepth = 3
			}
			ec = &gen.ExecCase{Script: g.Script(), Vars: map[string]string{}, Balances: map[string]map[string]string{}, Meta: map[string]map[string]string{}}
			for _, a := range []string{"a", "b", "world", "users:001", "dest", "0"} {
				for _, as := range []string{"USD", "EUR/2", "COIN", "A"} {
					if gen.Chance(t, "c12.bal", 45) {
						if ec.Balances[a] == nil {
							ec.Balances[a] = map[string]string{}
						}
						ec.Balances[a][as] = gen.Pick(t, "c12.balv", []string{"0", "1", "5", "100", "-3", "18446744073709551616", "-18446744073709551616"})
					}
				}
				if gen.Chance(t, "c12.meta", 40) {
					ec.Meta[a] = map[string]string{}
					for _, k := range []string{"k", "hello", "", "a b"} {
						if gen.Chance(t, "c12.metak", 50) {
							ec.Meta[a][k] = gen.Pick(t, "c12.metav", varTexts)
						}
					}
				}
			}
		} else {
			k := gen.DefaultKnobs()
			k.PBalanceOrigin = 25
			k.OverdraftFlag = gen.Chance(t, "c12.od", 30)
			k.PWorldFallback = 40
			k.POverUnity = 5
			k.PWeirdAccount = 2
			ec = gen.NewTG(t, k).Case()
			// a second `remaining` clause (grammatical, refused only by the static checker)
			if gen.Chance(t, "c12.dupremaining", 15) {
				dupRemaining(t, ec.Script)
			}
		}
		// arbitrary variable texts: either every variable is up for grabs, or (light mode)
		// only one of them, so that execution gets further before anything goes wrong
		light := gen.Chance(t, "c12.light", 50)
		victim := -1
		if light && len(ec.Script.Vars) > 0 {
			victim = gen.Uniform(t, "c12.victim", len(ec.Script.Vars)+1) // may select none
		}
		for i, d := range ec.Script.Vars {
			if d.Origin != nil {
				continue
			}
			if light && i != victim {
				if _, ok := ec.Vars[d.Name]; !ok {
					ec.Vars[d.Name] = gen.Pick(t, "c12.vartext3", varTexts)
				}
				continue
			}
			switch gen.Uniform(t, "c12.varmode", 5) {
			case 0:
				delete(ec.Vars, d.Name)
			case 1, 2:
				ec.Vars[d.Name] = gen.Pick(t, "c12.vartext", varTexts)
			default:
				if _, ok := ec.Vars[d.Name]; !ok {
					ec.Vars[d.Name] = gen.Pick(t, "c12.vartext2", varTexts)
				}
			}
		}
		if gen.Chance(t, "c12.flag", 30) {
			ec.Flags = []string{"experimental-overdraft-function"}
		}
		return ec
	}
}

func checkC12A(c any) *ev.Verdict {
	ec := c.(*gen.ExecCase)
	v := &ev.Verdict{}
	inflight(ec)
	text := gen.PrintCanonical(ec.Script)
	for _, mode := range []string{doubles.Superset, doubles.Exact} {
		r := hx.RunTextEC(ec, text, doubles.New(mode, hx.Content(ec)))
		if mode == doubles.Superset {
			outcomeLabel(r, v)
		}
		if r.ParseErrors > 0 {
			v.Skipped = "the script does not parse without errors"
			return v
		}
		if r.Panic != "" {
			return v.Failf(crashClass(r.Panic), "execution panicked (%s store): %s\nscript: %s\nvars: %v", mode, firstLines(r.Panic, 14), text, ec.Vars)
		}
		if r.NonEmptyWithError {
			return v.Failf("partial", "an error (%s) was returned together with postings or metadata", r.ErrMsg)
		}
		// a typed error: a value of one of the interpreter's own error types (also one this
		// harness has never seen), not a bare text
		if strings.HasPrefix(r.ErrClass, "Other:") && !strings.HasPrefix(strings.TrimPrefix(r.ErrType, "*"), "interpreter.") {
			return v.Failf("untyped-error", "execution returned an error that is not one of the interpreter's typed errors: %s (%s)", r.ErrType, r.ErrMsg)
		}
		ri := hx.RunInternalEC(ec, text, doubles.New(mode, hx.Content(ec)))
		if ri.Panic != "" {
			return v.Failf(crashClass(ri.Panic), "interpreter.RunProgram panicked: %s", firstLines(ri.Panic, 14))
		}
		if ri.NonEmptyWithError {
			return v.Failf("partial", "interpreter.RunProgram returned a result together with the error %s", ri.ErrMsg)
		}
		if (ri.ErrClass == "") != (r.ErrClass == "") {
			return v.Failf("entry-points-differ", "ParseResult.Run gives %s, interpreter.RunProgram gives %s", r.Summary(), ri.Summary())
		}
		v.NonTrivial = r.ErrClass != "" || len(r.Postings) > 0
	}
	return v
}

// ---------------------------------------------------------------- C12B: single faults

type C12BCase struct {
	Case   *gen.ExecCase `json:"case"`
	Fault  string        `json:"fault"`
	Expect []string      `json:"expect"`
}

func (c *C12BCase) Display() any {
	return map[string]any{"fault": c.Fault, "expect": c.Expect, "case": c.Case.Display()}
}

func init() {
	ev.Register(&ev.Prop{
		ID:    "C12B",
		Rule:  "(B) single fault: a typed script that succeeds, plus exactly one fault whose error class is forced whenever it is reached (literal of another type, undeclared variable, unknown function or type, wrong arity, missing variable, ill-formed number/monetary/portion text, missing metadata key, mismatched asset, negative sent amount, portion variables not summing to one, overdraft() without its flag); oracle: the outcome is success (fault not reached) or an error of the expected class - any other class or a panic is a violation; non-trivial = the expected class was observed",
		New:   func() any { return &C12BCase{} },
		Check: checkC12B,
	})
	Generators["C12B"] = genC12B
	ev.Register(&ev.Prop{
		ID:    "C12C",
		Rule:  "(C) store faults: typed scripts with balance()/overdraft()/meta() origins; for every k below the number of store calls of the fault-free run, the k-th store call fails with a unique message; oracle: always an error, of the balance-query class for a balance call and of the metadata-query class for a metadata call, whose message is the injected one, never a result; every k is non-trivial",
		New:   newExecCase,
		Check: checkC12C,
	})
	Generators["C12C"] = func(t *rapid.T, tier string) any {
		k := gen.DefaultKnobs()
		k.PBalanceOrigin = 60
		k.POrigin = 35
		k.OverdraftFlag = gen.Chance(t, "c12c.od", 50)
		k.PWorldFallback = 40
		k.PRich = 30
		// one fetch naming many accounts (an implementation may split it into several calls)
		if gen.Chance(t, "c12c.wide", 8) {
			return wideQueryCase(t)
		}
		return gen.NewTG(t, k).Case()
	}
}

func exprSlots(s *gen.Script) []*gen.Expr {
	var out []*gen.Expr
	s.WalkExprs(func(e *gen.Expr) { out = append(out, e) })
	return out
}

func genC12B(t *rapid.T, tier string) any {
	k := gen.DefaultKnobs()
	k.PWorldFallback = 70
	k.PRich = 40
	k.PNegBal = 4
	k.MaxStmts = 3
	k.PVarRepr = 35
	k.POrigin = 30
	k.PSave = 6
	ec := gen.NewTG(t, k).Case()
	c := &C12BCase{Case: ec}
	s := ec.Script
	slots := exprSlots(s)
	pickSlot := func(kind string) *gen.Expr {
		var cands []*gen.Expr
		for _, e := range slots {
			if kind == "" || e.Kind == kind {
				cands = append(cands, e)
			}
		}
		if len(cands) == 0 {
			return nil
		}
		return gen.Pick(t, "c12b.slot", cands)
	}
	var plain, metaVars []int
	for i, d := range s.Vars {
		if d.Origin == nil {
			plain = append(plain, i)
		} else if d.Origin.Fn == "meta" {
			metaVars = append(metaVars, i)
		}
	}
	replace := func(e *gen.Expr, with *gen.Expr) { *e = *with }
	switch gen.Uniform(t, "c12b.fault", 13) {
	case 0: // literal of another type in place of an account
		if e := pickSlot(gen.EAcct); e != nil {
			replace(e, gen.Pick(t, "c12b.lit", []*gen.Expr{gen.NumI(3), gen.Str("s"), gen.Asset("USD"), gen.PortionLit("1/2")}))
			c.Fault, c.Expect = "account replaced by a literal of another type", []string{model.ETypeError}
		}
	case 1: // literal of another type in place of a number
		if e := pickSlot(gen.ENum); e != nil {
			replace(e, gen.Pick(t, "c12b.lit", []*gen.Expr{gen.Acct("a"), gen.Str("s"), gen.Asset("USD"), gen.PortionLit("1/2")}))
			c.Fault, c.Expect = "number replaced by a literal of another type", []string{model.ETypeError}
		}
	case 2: // undeclared variable
		if e := pickSlot(""); e != nil {
			replace(e, gen.Var("undeclared"))
			c.Fault, c.Expect = "expression replaced by an undeclared variable", []string{model.EUnboundVariable}
		}
	case 3: // unknown function statement
		s.Stmts = append(s.Stmts, &gen.Stmt{Kind: gen.StCall, Call: &gen.Call{Fn: gen.Pick(t, "c12b.fn", []string{"foo", "meta", "balance", "set_meta"}), Args: []*gen.Expr{gen.Acct("a"), gen.Str("k")}}})
		c.Fault, c.Expect = "unknown (or misplaced) function as a statement", []string{model.EUnboundFunction}
	case 4: // wrong arity
		call := gen.Pick(t, "c12b.arity", []*gen.Call{
			{Fn: "set_tx_meta", Args: []*gen.Expr{gen.Str("k")}},
			{Fn: "set_tx_meta"},
			{Fn: "set_tx_meta", Args: []*gen.Expr{gen.Str("k"), gen.NumI(1), gen.NumI(2)}},
			{Fn: "set_account_meta", Args: []*gen.Expr{gen.Acct("a"), gen.Str("k")}},
			{Fn: "set_account_meta", Args: []*gen.Expr{gen.Acct("a"), gen.Str("k"), gen.NumI(1), gen.NumI(2)}},
		})
		s.Stmts = append(s.Stmts, &gen.Stmt{Kind: gen.StCall, Call: call})
		c.Fault, c.Expect = "wrong number of arguments", []string{model.EBadArity}
	case 5: // unknown type
		if len(s.Vars) > 0 {
			i := gen.Uniform(t, "c12b.vi", len(s.Vars))
			if s.Vars[i].Origin == nil || s.Vars[i].Origin.Fn == "meta" {
				s.Vars[i].Type = gen.Pick(t, "c12b.type", []string{"int", "monetaries", "acct"})
				c.Fault, c.Expect = "unknown type in a declaration", []string{model.EInvalidType}
			}
		}
	case 6: // missing variable
		if len(plain) > 0 {
			d := s.Vars[gen.Pick(t, "c12b.pi", plain)]
			delete(ec.Vars, d.Name)
			c.Fault, c.Expect = "variable missing from the inputs", []string{model.EMissingVariable}
		}
	case 7: // ill-formed text
		var cands []int
		for _, i := range plain {
			switch s.Vars[i].Type {
			case "number", "monetary", "portion":
				cands = append(cands, i)
			}
		}
		if len(cands) > 0 {
			d := s.Vars[gen.Pick(t, "c12b.ti", cands)]
			switch d.Type {
			case "number":
				ec.Vars[d.Name] = gen.Pick(t, "c12b.badnum", []string{"12x", "", "1.5", "ten", "1e3", "0x1f", "1_0"})
				c.Expect = []string{model.EBadVariableText}
			case "monetary":
				ec.Vars[d.Name] = gen.Pick(t, "c12b.badmon", []string{"USD", "USD 1 2", "USD x", "10", "", "USD 1.5"})
				c.Expect = []string{model.EBadVariableText}
			case "portion":
				ec.Vars[d.Name] = gen.Pick(t, "c12b.badpor", []string{"2/1", "abc", "1/0", "150%", "", "-1/2", "1//2", "%"})
				c.Expect = []string{model.EBadPortion}
			}
			c.Fault = "ill-formed text for a " + d.Type + " variable"
		}
	case 8: // missing metadata
		if len(metaVars) > 0 {
			d := s.Vars[gen.Pick(t, "c12b.mi", metaVars)]
			acct, key := d.Origin.Args[0].Text, d.Origin.Args[1].Text
			delete(ec.Meta[acct], key)
			c.Fault, c.Expect = "metadata key missing", []string{model.EMetadataNotFound}
		}
	case 9: // mismatched asset in a cap / overdraft bound / clause cap
		var caps []*gen.Expr
		var walkS func(x *gen.Src)
		walkS = func(x *gen.Src) {
			if x == nil {
				return
			}
			if x.Cap != nil && x.Cap.Kind == gen.EMon && x.Cap.L.Kind == gen.EAsset {
				caps = append(caps, x.Cap)
			}
			if x.Bound != nil && x.Bound.Kind == gen.EMon && x.Bound.L.Kind == gen.EAsset {
				caps = append(caps, x.Bound)
			}
			for _, y := range x.Subs {
				walkS(y)
			}
			for _, it := range x.Items {
				walkS(it.From)
			}
			walkS(x.From)
		}
		for _, st := range s.Stmts {
			walkS(st.Src)
		}
		if len(caps) > 0 {
			e := gen.Pick(t, "c12b.cap", caps)
			e.L = gen.Asset("ZZZ")
			c.Fault, c.Expect = "cap in another asset", []string{model.EMismatchedCurrency}
		}
	case 10: // negative sent amount
		for _, st := range s.Stmts {
			if st.Kind == gen.StSend && !st.All && st.Sent.Kind == gen.EMon {
				st.Sent.R = gen.NumI(int64(-1 - gen.Uniform(t, "c12b.neg", 9)))
				assetExpr := st.Sent.L
				// negative amounts beyond the machine word come through a variable
				if st.Sent.L.Kind == gen.EAsset && gen.Chance(t, "c12b.negbig", 30) {
					s.Vars = append(s.Vars, gen.VarDecl{Type: "monetary", Name: "negamt"})
					ec.Vars["negamt"] = st.Sent.L.Text + " " + gen.Pick(t, "c12b.negbigv", []string{"-9223372036854775808", "-9223372036854775809", "-18446744073709551616", "-18446744073709551617", "-340282366920938463463374607431768211456"})
					st.Sent = gen.Var("negamt")
				}
				// sometimes the sources are reached only through caps (or there are none)
				switch gen.Uniform(t, "c12b.negsrc", 4) {
				case 0:
					st.Src = &gen.Src{Kind: gen.SCapped, Cap: gen.Mon(assetExpr, gen.NumI(int64(gen.Uniform(t, "c12b.negcap", 20)))), From: st.Src}
				case 1:
					st.Src = &gen.Src{Kind: gen.SInorder}
				}
				c.Fault, c.Expect = "negative amount sent", []string{model.ENegativeAmount}
				break
			}
		}
	case 11: // portion variables not summing to one
		for _, i := range plain {
			if s.Vars[i].Type == "portion" {
				ec.Vars[s.Vars[i].Name] = "0/1"
				c.Fault, c.Expect = "portion variable changed (sum no longer one)", []string{model.EAllotmentSum}
				break
			}
		}
	case 12: // overdraft() without its feature flag
		s.Vars = append(s.Vars, gen.VarDecl{Type: "monetary", Name: "odraft", Origin: &gen.Call{Fn: "overdraft", Args: []*gen.Expr{gen.Acct("a"), gen.Asset("USD")}}})
		c.Fault, c.Expect = "overdraft() without its feature flag", []string{model.EExperimental}
	}
	return c
}

func checkC12B(cc any) *ev.Verdict {
	c := cc.(*C12BCase)
	v := &ev.Verdict{}
	if c.Fault == "" {
		v.Skipped = "no fault applicable to this script"
		return v
	}
	v.Label("fault:" + c.Fault)
	inflight(c)
	r, _ := hx.Run(c.Case, doubles.Superset)
	outcomeLabel(r, v)
	if r.ParseErrors > 0 {
		v.HarnessError = "faulted script does not parse: " + gen.PrintCanonical(c.Case.Script)
		return v
	}
	if r.Panic != "" {
		return v.Failf(crashClass(r.Panic), "fault `%s`: execution panicked: %s\nscript: %s", c.Fault, firstLines(r.Panic, 14), gen.PrintCanonical(c.Case.Script))
	}
	if r.OK() {
		v.Label("fault-not-reached")
		return v
	}
	if r.NonEmptyWithError {
		return v.Failf("partial", "error returned together with a result")
	}
	// the base script may legitimately fail for lack of funds before the fault is reached -
	// but not when the reference execution reaches the fault first: the interpreter
	// evaluates everything the sequential reference evaluates, no later than it does
	// (only asserted for the negative sent amount, which any implementation has to look at
	// before it moves funds; for faults inside sources / destinations, how lazily
	// sub-expressions are evaluated is not part of the property)
	if r.ErrClass == model.EMissingFunds && c.Fault == "negative amount sent" {
		m := model.Run(c.Case.Script, hx.ModelInputs(c.Case))
		if m.Err != nil && m.Err.Class != model.EMissingFunds {
			for _, e := range c.Expect {
				if m.Err.Class == e {
					return v.Failf("wrong-cause", "fault `%s` is reached before any lack of funds (reference execution: %s at statement %d) but execution reports %s\nscript: %s\nvars: %v", c.Fault, m.Err.Class, m.Err.Stmt, r.Summary(), gen.PrintCanonical(c.Case.Script), c.Case.Vars)
				}
			}
		}
	}
	if refusedZeroPadded(c.Case, r) {
		v.Skipped = "a number written with leading zeros was refused as ill-formed (allowed)"
		return v
	}
	allowed := append([]string{model.EMissingFunds}, c.Expect...)
	for _, a := range allowed {
		if r.ErrClass == a {
			if a != model.EMissingFunds {
				v.NonTrivial = true
				v.Label("expected-class-observed")
			}
			return v
		}
	}
	return v.Failf("wrong-cause", "fault `%s` must surface as %v, but execution failed with %s\nscript: %s\nvars: %v", c.Fault, c.Expect, r.Summary(), gen.PrintCanonical(c.Case.Script), c.Case.Vars)
}

// ---------------------------------------------------------------- C12C

func checkC12C(c any) *ev.Verdict {
	ec := c.(*gen.ExecCase)
	v := &ev.Verdict{}
	inflight(ec)
	text := gen.PrintCanonical(ec.Script)
	for _, mode := range []string{doubles.Exact, doubles.Superset} {
		base := doubles.New(mode, hx.Content(ec))
		r0 := hx.RunText(text, ec.Vars, base, ec.Flags)
		if r0.ParseErrors > 0 || r0.Panic != "" {
			v.Skipped = "parse error or panic (C14 / C12A own these)"
			return v
		}
		ncalls := len(base.Calls)
		v.Label(fmt.Sprintf("store-calls:%d", min(ncalls, 5)))
		for k := 0; k < ncalls; k++ {
			st := doubles.New(mode, hx.Content(ec))
			msg := fmt.Sprintf("injected failure #%d of the store", k)
			st.FailAt, st.FailErr = k, errors.New(msg)
			r := hx.RunText(text, ec.Vars, st, ec.Flags)
			if r.Panic != "" {
				return v.Failf("panic", "store failing at call %d: execution panicked: %s", k, firstLines(r.Panic, 12))
			}
			if r.OK() {
				return v.Failf("fault-swallowed", "the store failed at its call %d (%s: %v) but execution returned a result: %s\nscript: %s", k, base.Calls[k].Kind, base.Calls[k].Query, r.Summary(), text)
			}
			if len(st.Calls) <= k {
				// the failing call was not reached: the run must have failed before, exactly as the fault-free run
				v.HarnessError = fmt.Sprintf("call %d not reached although the fault-free run made %d calls", k, ncalls)
				return v
			}
			want := "QueryBalance"
			if base.Calls[k].Kind == "meta" {
				want = "QueryMetadata"
			}
			if r.ErrClass != want || !strings.Contains(r.ErrMsg, msg) {
				return v.Failf("fault-misreported", "the store failed at its call %d (%s) with %q; execution returned %s", k, base.Calls[k].Kind, msg, r.Summary())
			}
			if r.NonEmptyWithError {
				return v.Failf("partial", "error returned together with a result")
			}
			v.NonTrivial = true
		}
	}
	return v
}

var _ = big.NewInt

// dupRemaining inserts a copy of the `remaining` item of one allotment (source or
// destination) at another position of the same allotment.
func dupRemaining(t *rapid.T, s *gen.Script) {
	var srcs []*gen.Src
	var dsts []*gen.Dst
	var walkS func(x *gen.Src)
	var walkD func(x *gen.Dst)
	walkK := func(k *gen.KOD) {
		if k != nil && !k.Kept {
			walkD(k.Dst)
		}
	}
	walkS = func(x *gen.Src) {
		if x == nil {
			return
		}
		for _, c := range x.Subs {
			walkS(c)
		}
		for i := range x.Items {
			if x.Items[i].Portion.Kind == gen.ARemaining {
				srcs = append(srcs, x)
			}
			walkS(x.Items[i].From)
		}
		walkS(x.From)
	}
	walkD = func(x *gen.Dst) {
		if x == nil {
			return
		}
		for i := range x.Clauses {
			walkK(&x.Clauses[i].To)
		}
		walkK(x.Remaining)
		for i := range x.Items {
			if x.Items[i].Portion.Kind == gen.ARemaining {
				dsts = append(dsts, x)
			}
			walkK(&x.Items[i].To)
		}
	}
	for _, st := range s.Stmts {
		if st.Kind == gen.StSend {
			walkS(st.Src)
			walkD(st.Dst)
		}
	}
	n := len(srcs) + len(dsts)
	if n == 0 {
		return
	}
	k := gen.Uniform(t, "c12.dupremaining.which", n)
	if k < len(srcs) {
		x := srcs[k]
		for i := range x.Items {
			if x.Items[i].Portion.Kind == gen.ARemaining {
				at := gen.Uniform(t, "c12.dupremaining.at", len(x.Items)+1)
				items := append([]gen.SrcItem{}, x.Items[:at]...)
				items = append(items, x.Items[i])
				x.Items = append(items, x.Items[at:]...)
				return
			}
		}
		return
	}
	x := dsts[k-len(srcs)]
	for i := range x.Items {
		if x.Items[i].Portion.Kind == gen.ARemaining {
			at := gen.Uniform(t, "c12.dupremaining.at", len(x.Items)+1)
			items := append([]gen.DstItem{}, x.Items[:at]...)
			items = append(items, x.Items[i])
			x.Items = append(items, x.Items[at:]...)
			return
		}
	}
}
