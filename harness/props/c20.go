package props

import (
	"bytes"
	"encoding/json"
	"fmt"
	"math/big"
	"os"
	"os/exec"
	"path/filepath"
	"regexp"
	"sort"
	"strings"

	"pgregory.net/rapid"

	"github.com/formancehq/numscript/verifapi"

	"verifharness/ev"
	"verifharness/gen"
	"verifharness/hx"
)

type C20Case struct {
	Case *gen.ExecCase `json:"case"`
	// Text overrides the printed script when non-empty (broken texts for `check`)
	Text string `json:"text,omitempty"`
	Note string `json:"note,omitempty"`
}

func (c *C20Case) Display() any {
	d := c.Case.Display().(map[string]any)
	if c.Text != "" {
		d["script"] = c.Text
	}
	d["note"] = c.Note
	return d
}

func init() {
	ev.Register(&ev.Prop{
		ID:          "C20",
		Rule:        "typed generator scripts: clean, warning-only and (after type-breaking or textual edits) erroneous; succeeding and failing at run time; balances beyond 2^64; metadata; overdraft flag on/off; the numscript binary is built from the working tree; oracle: `check FILE` exits non-zero exactly when the library counts >= 1 error-severity diagnostic and prints one `FILE:L:C - severity` header plus message per library diagnostic (0- or 1-based positions accepted, consistently); `run --output-format json` through --raw, --stdin, script file + -v/-b/-m files, and --stdin combined with a -v file gives identical stdout and status on all channels; on success status 0 and stdout decodes (arbitrary-precision numbers) to exactly the library's postings, transaction metadata (as the values' text) and account metadata; on a library error status != 0 and stderr contains the error's message; non-trivial = >= 1 diagnostic for check, and >= 1 posting or an error for run",
		New:         func() any { return &C20Case{} },
		Check:       checkC20,
		Assumptions: []string{"scripts on which the library itself panics are excluded (C14/C18/C12 own them)"},
	})
	Generators["C20"] = func(t *rapid.T, tier string) any {
		k := staticKnobs(t, tier)
		k.MaxStmts = 3
		k.PWorldFallback = 50
		k.PRich = 30
		k.PBig = 12
		k.PCall = 20
		ec := gen.NewTG(t, k).Case()
		c := &C20Case{Case: ec, Note: "clean"}
		switch gen.Uniform(t, "variant", 8) {
		case 0: // warning-only: an unused variable
			ec.Script.Vars = append(ec.Script.Vars, gen.VarDecl{Type: "number", Name: "unused_var"})
			ec.Vars["unused_var"] = "1"
			c.Note = "unused-variable"
		case 1: // static error that may or may not matter at run time
			slots := exprSlots(ec.Script)
			if len(slots) > 0 {
				e := gen.Pick(t, "slot", slots)
				*e = *gen.Pick(t, "lit", []*gen.Expr{gen.NumI(3), gen.Str("s"), gen.Var("undeclared"), gen.Acct("a")})
				c.Note = "type-breaking-edit"
			}
		case 2: // textual damage: parse errors
			p := gen.Print(ec.Script.Clone(), gen.Canonical)
			c.Text, c.Note = mutateText(t, p.Text, p.Tokens)
			c.Note = "text:" + c.Note
		case 4: // values whose text needs escaping in JSON (assets are not validated when they come from variables)
			odd := gen.Pick(t, "odd", []string{"US\"D", "US\\u0041D", "A\\B", "line\nfeed", "tab\tbed", "é/2"})
			ec.Script.Vars = append(ec.Script.Vars, gen.VarDecl{Type: "monetary", Name: "oddm"}, gen.VarDecl{Type: "asset", Name: "odda"})
			ec.Vars["oddm"] = odd + " 10"
			ec.Vars["odda"] = odd
			ec.Script.Stmts = append(ec.Script.Stmts,
				&gen.Stmt{Kind: gen.StCall, Call: &gen.Call{Fn: "set_tx_meta", Args: []*gen.Expr{gen.Str("oddm"), gen.Var("oddm")}}},
				&gen.Stmt{Kind: gen.StCall, Call: &gen.Call{Fn: "set_tx_meta", Args: []*gen.Expr{gen.Str("odda"), gen.Var("odda")}}},
				&gen.Stmt{Kind: gen.StSend, Sent: gen.Var("oddm"), Src: &gen.Src{Kind: gen.SAcct, Addr: gen.Acct("world")}, Dst: &gen.Dst{Kind: gen.DAcct, Addr: gen.Acct("d")}})
			c.Note = "odd-asset-text"
		case 6: // an error message that contains a per cent sign (and other printf verbs)
			bad := gen.Pick(t, "pct", []string{"50%", "10%d", "100%s", "%v%v", "5%!"})
			ec.Script.Vars = append([]gen.VarDecl{{Type: "number", Name: "pct"}}, ec.Script.Vars...)
			ec.Vars["pct"] = bad
			ec.Script.Stmts = append(ec.Script.Stmts, &gen.Stmt{Kind: gen.StCall, Call: &gen.Call{Fn: "set_tx_meta", Args: []*gen.Expr{gen.Str("pct"), gen.Var("pct")}}})
			c.Note = "percent-in-error"
		case 7: // many errors (an exit status is taken modulo 256)
			if gen.Chance(t, "many", 25) {
				n := gen.Pick(t, "many.n", []int{255, 256, 257, 512})
				var sb strings.Builder
				for i := 0; i < n; i++ {
					sb.WriteString("set_tx_meta(\"k\", $nosuch)\n")
				}
				c.Text = sb.String()
				c.Note = "many-errors"
			}
		case 3: // multi-line layout (positions on several lines)
			seps := []string{" ", "\n", " ", "\n  ", " "}
			if gen.Chance(t, "multiline.nonascii", 60) {
				// non-ASCII text inside the constructs (an excerpt of the source is printed with errors)
				seps = []string{" ", " // é €€ 日本\n", " ", "\n  ", " /* ü🙂 */ ", "\n", " "}
			} else if gen.Chance(t, "multiline.cr", 50) {
				// line ends of every kind, a line comment ended by a lone CR (the grammar's NEWLINE is [\r\n]+)
				seps = []string{" ", "\r\n", " // c\r", "\n", " ", "\r", " // d\r\n"}
			}
			c.Text = gen.Print(ec.Script.Clone(), &gen.ListLayout{Seps: seps}).Text
			c.Note = "multi-line"
		}
		return c
	}
}

var ansiRe = regexp.MustCompile("\x1b\\[[0-9;]*m")

type procResult struct {
	status int
	stdout string
	stderr string
	err    error
}

func runCLI(cli string, stdin string, args ...string) procResult {
	cmd := exec.Command(cli, args...)
	cmd.Stdin = strings.NewReader(stdin)
	var so, se bytes.Buffer
	cmd.Stdout, cmd.Stderr = &so, &se
	err := cmd.Run()
	r := procResult{stdout: so.String(), stderr: se.String()}
	if err != nil {
		if ee, ok := err.(*exec.ExitError); ok {
			r.status = ee.ExitCode()
		} else {
			r.err = err
		}
	}
	return r
}

func checkC20(cc any) *ev.Verdict {
	c := cc.(*C20Case)
	v := &ev.Verdict{}
	v.Label("variant:" + strings.SplitN(c.Note, ":", 2)[0])
	cli := os.Getenv("VERIF_CLI")
	if cli == "" {
		v.HarnessError = "VERIF_CLI is not set (the driver builds the binary)"
		return v
	}
	ec := c.Case
	text := c.Text
	if text == "" {
		text = gen.PrintCanonical(ec.Script)
	}
	dir, err := os.MkdirTemp(os.Getenv("VERIF_OUT"), "c20-")
	if err != nil {
		v.HarnessError = err.Error()
		return v
	}
	defer os.RemoveAll(dir)
	scriptPath := filepath.Join(dir, "script.num")
	os.WriteFile(scriptPath, []byte(text), 0o644)

	// ---------------- check
	a := analyse(text)
	if a.panic != "" {
		v.Skipped = "the library panics on this text (C14/C18 own this)"
		return v
	}
	nerr := 0
	for _, d := range a.raw {
		if d.Kind.Severity() == verifapi.ErrorSeverity {
			nerr++
		}
	}
	pc := runCLI(cli, "", "check", scriptPath)
	if pc.err != nil {
		v.HarnessError = "cannot run the CLI: " + pc.err.Error()
		return v
	}
	if (pc.status != 0) != (nerr > 0) {
		return v.Failf("check-status", "`numscript check` exits with %d but the library counts %d error(s) among %d diagnostic(s)\nscript: %q\nstdout: %s", pc.status, nerr, len(a.raw), text, pc.stdout)
	}
	plain := ansiRe.ReplaceAllString(pc.stdout, "")
	// every diagnostic is printed with its position (line:column, counted from 0 or from 1
	// throughout) and, after it, its message; the layout, the order, colours and the wording
	// of the severity and of the summary are not part of the property (further places may be
	// printed, e.g. related locations). When the file name is printed with the positions, there
	// are at least as many of those as diagnostics.
	headers := regexp.MustCompile(regexp.QuoteMeta(scriptPath)+`:\d+:\d+`).FindAllString(plain, -1)
	if len(headers) != 0 && len(headers) < len(a.raw) {
		return v.Failf("check-count", "`numscript check` prints %d diagnostics, the library reports %d\nscript: %q\nstdout: %s", len(headers), len(a.raw), text, plain)
	}
	prefix := ""
	if len(headers) != 0 {
		prefix = regexp.QuoteMeta(scriptPath) + ":"
	}
	okOffset := false
	var missing string
	for _, off := range []int{0, 1} {
		wantPos := map[string]int{}
		wantBlock := map[string]int{}
		for _, d := range a.raw {
			pos := fmt.Sprintf("%d:%d", d.Range.Start.Line+off, d.Range.Start.Character+off)
			wantPos[pos]++
			wantBlock[pos+"\x00"+d.Kind.Message()]++
		}
		posRe := func(pos string) *regexp.Regexp {
			if prefix != "" {
				return regexp.MustCompile(prefix + regexp.QuoteMeta(pos) + `(\D|$)`)
			}
			return regexp.MustCompile(`(^|[^\d:])` + regexp.QuoteMeta(pos) + `(\D|$)`)
		}
		all := true
		for pos, n := range wantPos {
			got := len(posRe(pos).FindAllString(plain, -1))
			if got < n {
				all = false
				missing = pos
			}
		}
		for block, n := range wantBlock {
			parts := strings.SplitN(block, "\x00", 2)
			// the message must appear after its position at least n times
			cnt := 0
			rest := plain
			re := posRe(parts[0])
			for {
				loc := re.FindStringIndex(rest)
				if loc == nil {
					break
				}
				rest = rest[loc[1]-1:]
				if strings.Contains(rest, parts[1]) {
					cnt++
				}
			}
			if cnt < n {
				all = false
				missing = parts[0] + " " + parts[1]
			}
		}
		if all {
			okOffset = true
			break
		}
	}
	if !okOffset {
		return v.Failf("check-content", "`numscript check` does not print the diagnostic %q (position and message)\nscript: %q\nstdout: %s", missing, text, plain)
	}
	if len(a.raw) > 0 {
		v.NonTrivial = true
		v.Label("check:diagnostics")
	}

	// ---------------- run
	lib := hx.RunInternal(text, ec.Vars, staticStore(ec), ec.Flags)
	if lib.Panic != "" {
		v.Skipped = "the library panics at run time (C12 owns this)"
		return v
	}
	balJSON := map[string]map[string]json.Number{}
	for acct, m := range ec.Balances {
		balJSON[acct] = map[string]json.Number{}
		for k, val := range m {
			balJSON[acct][k] = json.Number(val)
		}
	}
	vars := ec.Vars
	if vars == nil {
		vars = map[string]string{}
	}
	meta := ec.Meta
	if meta == nil {
		meta = map[string]map[string]string{}
	}
	rawObj := map[string]any{"script": text, "variables": vars, "balances": balJSON, "metadata": meta}
	rawJSON, _ := json.Marshal(rawObj)
	partialJSON, _ := json.Marshal(map[string]any{"script": text, "balances": balJSON, "metadata": meta})
	vb, _ := json.Marshal(vars)
	bb, _ := json.Marshal(balJSON)
	mb, _ := json.Marshal(meta)
	os.WriteFile(filepath.Join(dir, "v.json"), vb, 0o644)
	os.WriteFile(filepath.Join(dir, "b.json"), bb, 0o644)
	os.WriteFile(filepath.Join(dir, "m.json"), mb, 0o644)
	extra := []string{"--output-format", "json"}
	for _, f := range ec.Flags {
		if f == "experimental-overdraft-function" {
			extra = append(extra, "--experimental-overdraft-function")
		}
	}
	channels := []struct {
		name string
		r    procResult
	}{
		{"--raw", runCLI(cli, "", append([]string{"run", "--raw", string(rawJSON)}, extra...)...)},
		{"--stdin", runCLI(cli, string(rawJSON), append([]string{"run", "--stdin"}, extra...)...)},
		{"files", runCLI(cli, "", append([]string{"run", scriptPath, "-v", filepath.Join(dir, "v.json"), "-b", filepath.Join(dir, "b.json"), "-m", filepath.Join(dir, "m.json")}, extra...)...)},
		// mixed: variables from a file, everything else from stdin
		{"--stdin + -v file", runCLI(cli, string(partialJSON), append([]string{"run", "--stdin", "-v", filepath.Join(dir, "v.json")}, extra...)...)},
	}
	for _, ch := range channels[1:] {
		if ch.r.stdout != channels[0].r.stdout || ch.r.status != channels[0].r.status {
			return v.Failf("channels-differ", "`numscript run` gives different results through %s (status %d, stdout %q) and %s (status %d, stdout %q)\nscript: %q", channels[0].name, channels[0].r.status, channels[0].r.stdout, ch.name, ch.r.status, ch.r.stdout, text)
		}
	}
	first := channels[0].r
	if lib.ParseErrors > 0 {
		v.Label("run:parse-error")
		if first.status == 0 {
			return v.Failf("run-status", "the script has parse errors but `numscript run` exits with 0\nscript: %q", text)
		}
		return v
	}
	if lib.ErrClass != "" {
		v.Label("run:error")
		v.NonTrivial = true
		if first.status == 0 {
			return v.Failf("run-status", "the library fails with %q but `numscript run` exits with 0 and prints %q\nscript: %q", lib.ErrMsg, first.stdout, text)
		}
		if !strings.Contains(first.stderr, lib.ErrMsg) {
			return v.Failf("run-message", "the library fails with %q; `numscript run` stderr is %q", lib.ErrMsg, first.stderr)
		}
		return v
	}
	v.Label("run:ok")
	if first.status != 0 {
		return v.Failf("run-status", "the library succeeds but `numscript run` exits with %d; stderr %q\nscript: %q", first.status, first.stderr, text)
	}
	var out struct {
		Postings []struct {
			Source      string      `json:"source"`
			Destination string      `json:"destination"`
			Amount      json.Number `json:"amount"`
			Asset       string      `json:"asset"`
		} `json:"postings"`
		TxMeta       map[string]json.RawMessage   `json:"txMeta"`
		AccountsMeta map[string]map[string]string `json:"accountsMeta"`
	}
	dec := json.NewDecoder(strings.NewReader(first.stdout))
	dec.UseNumber()
	if err := dec.Decode(&out); err != nil {
		return v.Failf("run-json", "`numscript run --output-format json` printed something that is not the documented JSON: %v: %q", err, first.stdout)
	}
	var got []string
	for _, p := range out.Postings {
		n, ok := new(big.Int).SetString(p.Amount.String(), 10)
		if !ok {
			return v.Failf("run-json", "posting amount %q is not an integer", p.Amount)
		}
		got = append(got, hx.Posting{Src: p.Source, Dst: p.Destination, Asset: p.Asset, Amt: n}.String())
	}
	if strings.Join(got, "; ") != postingsString(lib.Postings) {
		return v.Failf("run-postings", "CLI postings [%s], library postings [%s]\nscript: %q", strings.Join(got, "; "), postingsString(lib.Postings), text)
	}
	gotTx := map[string]string{}
	for k, raw := range out.TxMeta {
		var s string
		if err := json.Unmarshal(raw, &s); err != nil {
			return v.Failf("run-txmeta", "transaction metadata %q is printed as %s, not as the value's text", k, raw)
		}
		gotTx[k] = s
	}
	wantTx := map[string]string{}
	for k, tv := range lib.TxMeta {
		wantTx[k] = tv[strings.IndexByte(tv, '|')+1:]
	}
	if !metaEqual(gotTx, wantTx) {
		return v.Failf("run-txmeta", "CLI transaction metadata %v, library %v", gotTx, wantTx)
	}
	if acctMetaString(out.AccountsMeta) != acctMetaString(lib.AcctMeta) {
		return v.Failf("run-acctmeta", "CLI account metadata {%s}, library {%s}", acctMetaString(out.AccountsMeta), acctMetaString(lib.AcctMeta))
	}
	if len(lib.Postings) > 0 {
		v.NonTrivial = true
	}
	return v
}

var _ = sort.Strings
