package props

import (
	"bytes"
	"encoding/json"
	"fmt"
	"os"
	"strings"

	"pgregory.net/rapid"

	"github.com/formancehq/numscript/verifapi"

	"verifharness/ev"
	"verifharness/gen"
)

// C19W: the same histories as C19, sent over the wire to the real `numscript lsp` process
// (Content-Length framing on stdin, answers read from stdout until the server exits at the end
// of its input). The oracle is computed in this process: a fresh server state that only saw
// didOpen(uri, latest text).

type C19WCase struct {
	Ops     []LspOp `json:"ops"`
	FirstID int     `json:"first_id"` // id of the first request; the following ones count upwards
	StrIDs  bool    `json:"str_ids"`  // ids are sent as JSON strings
	Init    bool    `json:"init"`     // the history starts with initialize / initialized
}

func init() {
	ev.Register(&ev.Prop{
		ID:    "C19W",
		Rule:  "(d) wire level: the histories of (a), with texts that also contain non-ASCII characters, framed with Content-Length (in bytes) and piped into the real `numscript lsp` process; every request carries a distinct id >= 1 (numbers or strings), notifications carry none; oracle: stdout is a well-formed sequence of frames; for every request there is exactly one response with its id, whose result equals what a fresh in-process server state that only saw didOpen(uri, latest text) answers; the publishDiagnostics notifications, in order, are exactly one per open/change with the uri and the diagnostics of a fresh analysis of the text just sent; the process exits with status 0 at the end of its input; responses carrying the id 0/null (the loop's answers to notifications) are not looked at; non-trivial = >= 2 documents open, >= 1 change and >= 2 requests answered",
		New:   func() any { return &C19WCase{} },
		Check: checkC19W,
	})
	Generators["C19W"] = func(t *rapid.T, tier string) any {
		base := Generators["C19"](t, tier).(*C19Case)
		c := &C19WCase{Ops: base.Ops}
		// non-ASCII texts: the frame length counts bytes, positions count characters
		extra := []string{
			"vars { account $acc }\n// é ü 漢字\nset_tx_meta(\"clé\", \"värde ✓\")\nsend [EUR/2 7] (source = $acc destination = @böse)\n",
			"/* ☃☃☃ */ vars { monetary $m } send $m (source = @world destination = @d) // ☃",
		}
		for i := range c.Ops {
			op := &c.Ops[i]
			for j := range op.Texts {
				if gen.Chance(t, "wire.nonascii", 15) {
					op.Texts[j] = gen.Pick(t, "wire.text", extra)
				}
			}
		}
		// positions were drawn for the old texts; that is fine (any position is a legal request)
		c.FirstID = 1 + gen.Uniform(t, "wire.id", 1000)
		c.StrIDs = gen.Chance(t, "wire.strids", 25)
		c.Init = gen.Chance(t, "wire.init", 50)
		return c
	}
}

func frame(body []byte) []byte {
	return append([]byte(fmt.Sprintf("Content-Length: %d\r\n\r\n", len(body))), body...)
}

type wireMsg struct {
	ID     *json.RawMessage `json:"id"`
	Method string           `json:"method"`
	Result *json.RawMessage `json:"result"`
	Error  *json.RawMessage `json:"error"`
}

func checkC19W(cc any) *ev.Verdict {
	c := cc.(*C19WCase)
	v := &ev.Verdict{}
	transportTexts(c.Ops)
	cli := os.Getenv("VERIF_CLI")
	if cli == "" {
		v.HarnessError = "VERIF_CLI is not set (the driver builds the binary)"
		return v
	}
	type expect struct {
		step   int
		op     LspOp
		idJSON string // "" for notifications
		method string
		params map[string]any
		text   string // latest text of the document at that point
	}
	var in bytes.Buffer
	var exps []expect
	nextID := c.FirstID
	idOf := func() (any, string) {
		n := nextID
		nextID++
		if c.StrIDs {
			s := fmt.Sprintf("req-%d", n)
			b, _ := json.Marshal(s)
			return s, string(b)
		}
		return n, fmt.Sprint(n)
	}
	send := func(id any, method string, params any) {
		m := map[string]any{"jsonrpc": "2.0", "method": method, "params": params}
		if id != nil {
			m["id"] = id
		}
		b, _ := json.Marshal(m)
		in.Write(frame(b))
	}
	var initID string
	if c.Init {
		id, idj := idOf()
		initID = idj
		send(id, "initialize", map[string]any{"processId": nil, "rootUri": nil, "capabilities": map[string]any{}})
		send(nil, "initialized", map[string]any{})
	}
	latest := map[string]string{}
	for i, op := range c.Ops {
		switch op.Kind {
		case "open":
			text := op.Texts[len(op.Texts)-1]
			latest[op.URI] = text
			p := map[string]any{"textDocument": map[string]any{"uri": op.URI, "languageId": "numscript", "version": 1, "text": text}}
			send(nil, "textDocument/didOpen", p)
			exps = append(exps, expect{step: i, op: op, method: "textDocument/didOpen", text: text})
		case "change":
			cs := []any{}
			for _, tx := range op.Texts {
				cs = append(cs, map[string]any{"text": tx})
			}
			p := map[string]any{"textDocument": map[string]any{"uri": op.URI, "version": i + 2}, "contentChanges": cs}
			send(nil, "textDocument/didChange", p)
			if len(op.Texts) > 0 {
				latest[op.URI] = op.Texts[len(op.Texts)-1]
				exps = append(exps, expect{step: i, op: op, method: "textDocument/didChange", text: latest[op.URI]})
			}
		case "hover", "definition", "symbols":
			method := map[string]string{"hover": "textDocument/hover", "definition": "textDocument/definition", "symbols": "textDocument/documentSymbol"}[op.Kind]
			var params map[string]any
			if op.Kind == "symbols" {
				params = docParams(op.URI)
			} else {
				params = posParams(op.URI, op.Line, op.Char)
			}
			text, isOpen := latest[op.URI]
			if !isOpen {
				v.HarnessError = "history requests a document that is not open"
				return v
			}
			id, idj := idOf()
			send(id, method, params)
			exps = append(exps, expect{step: i, op: op, idJSON: idj, method: method, params: params, text: text})
		default:
			v.HarnessError = "unknown op " + op.Kind
			return v
		}
	}

	// the oracle first: a server panic on one of these texts belongs to C18
	type want struct {
		notif    string
		response string
	}
	wants := make([]want, len(exps))
	for k, e := range exps {
		fs := verifapi.LspInitialState()
		r := lspCall(&fs, "textDocument/didOpen", map[string]any{"textDocument": map[string]any{"uri": e.op.URI, "text": e.text}})
		if r.Panic != "" || len(r.Notifs) != 1 {
			v.Skipped = "server panic on this text (C18 owns crashes)"
			return v
		}
		if e.idJSON == "" {
			wants[k].notif = r.Notifs[0]
			continue
		}
		fr := lspCall(&fs, e.method, e.params)
		if fr.Panic != "" {
			v.Skipped = "server panic (C18 owns crashes)"
			return v
		}
		wants[k].response = fr.Response
	}

	inflight(c)
	pr := runCLI(cli, in.String(), "lsp")
	if pr.err != nil {
		v.HarnessError = "cannot run the language server: " + pr.err.Error()
		return v
	}
	if pr.status != 0 {
		return v.Failf("wire-crash", "`numscript lsp` exits with status %d on a well-formed history; %s", pr.status, crashLine(pr.stderr))
	}
	msgs, err := splitFrames(pr.stdout)
	if err != nil {
		return v.Failf("wire-framing", "the server's output is not a sequence of Content-Length frames: %v", err)
	}
	var notifs []string
	responses := map[string][]string{}
	for _, m := range msgs {
		var w wireMsg
		if json.Unmarshal([]byte(m), &w) != nil {
			return v.Failf("wire-framing", "a frame of the server's output is not a JSON object: %q", m)
		}
		if w.Method != "" {
			notifs = append(notifs, normaliseNotif(m))
			continue
		}
		id := "null"
		if w.ID != nil {
			id = string(*w.ID)
		}
		res := "null"
		if w.Result != nil {
			var buf bytes.Buffer
			json.Compact(&buf, *w.Result)
			res = buf.String()
		}
		if w.Error != nil {
			res = "ERROR " + string(*w.Error)
		}
		responses[id] = append(responses[id], res)
	}
	if c.Init {
		if rs := responses[initID]; len(rs) != 1 || !strings.Contains(rs[0], "capabilities") {
			return v.Failf("wire-initialize", "the initialize request (id %s) got %d response(s): %v", initID, len(rs), rs)
		}
		v.Label("wire:initialize")
	}
	answered := 0
	versions := map[string][]string{} // uri -> what a fresh analysis publishes for each successive text
	for k, e := range exps {
		if e.idJSON == "" {
			versions[e.op.URI] = append(versions[e.op.URI], wants[k].notif)
			continue
		}
		rs := responses[e.idJSON]
		if len(rs) != 1 {
			return v.Failf("wire-response-count", "step %d (%s %s): the request with id %s got %d responses: %v", e.step, e.op.Kind, e.op.URI, e.idJSON, len(rs), rs)
		}
		got := rs[0]
		if e.op.Kind == "symbols" {
			got = normaliseSymbols(got)
		}
		if got != wants[k].response {
			return v.Failf("wire-response", "step %d (%s %s at %d:%d, id %s): answered %s\na fresh analysis of the document's latest text answers %s\nlatest text: %q", e.step, e.op.Kind, e.op.URI, e.op.Line, e.op.Char, e.idJSON, got, wants[k].response, e.text)
		}
		answered++
		if got != "null" {
			v.Label("answer:non-null")
		}
	}
	// published diagnostics: for every document, the sets published for it are, in order, sets
	// of successive versions of its text (a server may skip a publication that repeats what the
	// client holds), and the last one is the set of the latest text
	published := map[string][]string{}
	for _, n := range notifs {
		u := notifURI(n)
		if _, ok := versions[u]; !ok {
			return v.Failf("wire-diagnostics", "diagnostics published for a document that was never opened: %s", n)
		}
		published[u] = append(published[u], n)
	}
	for u, vs := range versions {
		j := 0
		for _, n := range published[u] {
			for j < len(vs) && vs[j] != n {
				j++
			}
			if j == len(vs) {
				return v.Failf("wire-diagnostics", "document %s: the published set %s is not what a fresh analysis of any (remaining) version of its text publishes; versions in order: %v; published in order: %v", u, n, vs, published[u])
			}
		}
		have := "textDocument/publishDiagnostics uri=" + u + " []"
		if len(published[u]) > 0 {
			have = published[u][len(published[u])-1]
		}
		if have != vs[len(vs)-1] {
			return v.Failf("wire-diagnostics", "document %s: at the end the client holds %s\na fresh analysis of its latest text publishes %s", u, have, vs[len(vs)-1])
		}
		if msg, ok := heldMatchesLibrary(have, latest[u]); !ok {
			return v.Failf("wire-diagnostics", "document %s: %s", u, msg)
		}
	}
	changes := 0
	nonASCII := false
	for _, op := range c.Ops {
		if op.Kind == "change" && len(op.Texts) > 0 {
			changes++
		}
		for _, tx := range op.Texts {
			if len(tx) != len([]rune(tx)) {
				nonASCII = true
			}
		}
	}
	if nonASCII {
		v.Label("wire:non-ascii")
	}
	if c.StrIDs {
		v.Label("wire:string-ids")
	}
	if len(latest) >= 2 && changes >= 1 && answered >= 2 {
		v.NonTrivial = true
	}
	return v
}

func crashLine(stderr string) string {
	for _, l := range strings.Split(stderr, "\n") {
		if strings.HasPrefix(l, "panic:") || strings.HasPrefix(l, "fatal error:") {
			return l
		}
	}
	return "stderr ends with: " + tailOf(stderr, 300)
}

func tailOf(s string, n int) string {
	if len(s) > n {
		return "..." + s[len(s)-n:]
	}
	return s
}
