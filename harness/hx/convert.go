package hx

import (
	"fmt"
	"math/big"

	"github.com/formancehq/numscript/verifapi"

	"verifharness/gen"
)

// Convert turns the repository's AST into the harness's own tree, copying every range the
// real tree carries. It fails (error) on nil nodes: a well-formed script must not produce any.

func sp(r verifapi.Range) *gen.Span {
	return &gen.Span{SL: r.Start.Line, SC: r.Start.Character, EL: r.End.Line, EC: r.End.Character}
}

type conv struct{ err error }

func (c *conv) fail(f string, a ...any) {
	if c.err == nil {
		c.err = fmt.Errorf(f, a...)
	}
}

func isNil(x any) bool {
	if x == nil {
		return true
	}
	switch v := x.(type) {
	case *verifapi.Variable:
		return v == nil
	case *verifapi.AssetLiteral:
		return v == nil
	case *verifapi.NumberLiteral:
		return v == nil
	case *verifapi.StringLiteral:
		return v == nil
	case *verifapi.MonetaryLiteral:
		return v == nil
	case *verifapi.AccountLiteral:
		return v == nil
	case *verifapi.RatioLiteral:
		return v == nil
	case *verifapi.BinaryInfix:
		return v == nil
	}
	return false
}

func (c *conv) expr(e verifapi.ValueExpr) *gen.Expr {
	if isNil(e) {
		c.fail("nil expression")
		return &gen.Expr{Kind: "nil"}
	}
	switch e := e.(type) {
	case *verifapi.Variable:
		return &gen.Expr{Kind: gen.EVar, Text: e.Name, Span: sp(e.Range)}
	case *verifapi.AssetLiteral:
		return &gen.Expr{Kind: gen.EAsset, Text: e.Asset, Span: sp(e.Range)}
	case *verifapi.StringLiteral:
		return &gen.Expr{Kind: gen.EStr, Text: e.String, Span: sp(e.Range)}
	case *verifapi.AccountLiteral:
		return &gen.Expr{Kind: gen.EAcct, Text: e.Name, Span: sp(e.Range)}
	case *verifapi.NumberLiteral:
		return &gen.Expr{Kind: gen.ENum, Text: big.NewInt(int64(e.Number)).String(), Span: sp(e.Range)}
	case *verifapi.RatioLiteral:
		t := "nil/nil"
		if e.Numerator != nil && e.Denominator != nil {
			t = e.Numerator.String() + "/" + e.Denominator.String()
		}
		return &gen.Expr{Kind: gen.EPortion, Text: t, Span: sp(e.Range)}
	case *verifapi.MonetaryLiteral:
		return &gen.Expr{Kind: gen.EMon, L: c.expr(e.Asset), R: c.expr(e.Amount), Span: sp(e.Range)}
	case *verifapi.BinaryInfix:
		return &gen.Expr{Kind: gen.EInfix, Op: string(e.Operator), L: c.expr(e.Left), R: c.expr(e.Right), Span: sp(e.Range)}
	}
	c.fail("unknown expression node %T", e)
	return &gen.Expr{Kind: "?"}
}

func (c *conv) allot(a verifapi.AllotmentValue) gen.Allot {
	switch a := a.(type) {
	case *verifapi.RatioLiteral:
		if a == nil {
			break
		}
		return gen.Allot{Kind: gen.ALit, Text: a.Numerator.String() + "/" + a.Denominator.String(), Span: sp(a.Range)}
	case *verifapi.Variable:
		if a == nil {
			break
		}
		return gen.Allot{Kind: gen.AVar, Text: a.Name, Span: sp(a.Range)}
	case *verifapi.RemainingAllotment:
		if a == nil {
			break
		}
		return gen.Allot{Kind: gen.ARemaining, Span: sp(a.Range)}
	}
	c.fail("nil or unknown allotment %T", a)
	return gen.Allot{Kind: "?"}
}

func (c *conv) src(s verifapi.Source) *gen.Src {
	switch s := s.(type) {
	case *verifapi.SourceAccount:
		if s == nil {
			break
		}
		e := c.expr(s.ValueExpr)
		return &gen.Src{Kind: gen.SAcct, Addr: e, Span: e.Span}
	case *verifapi.SourceOverdraft:
		if s == nil {
			break
		}
		out := &gen.Src{Kind: gen.SOver, Addr: c.expr(s.Address), Span: sp(s.Range)}
		if s.Bounded != nil {
			out.Bound = c.expr(*s.Bounded)
		}
		return out
	case *verifapi.SourceInorder:
		if s == nil {
			break
		}
		out := &gen.Src{Kind: gen.SInorder, Span: sp(s.Range)}
		for _, x := range s.Sources {
			out.Subs = append(out.Subs, c.src(x))
		}
		return out
	case *verifapi.SourceAllotment:
		if s == nil {
			break
		}
		out := &gen.Src{Kind: gen.SAllot, Span: sp(s.Range)}
		for _, it := range s.Items {
			out.Items = append(out.Items, gen.SrcItem{Portion: c.allot(it.Allotment), From: c.src(it.From), Span: sp(it.Range)})
		}
		return out
	case *verifapi.SourceCapped:
		if s == nil {
			break
		}
		return &gen.Src{Kind: gen.SCapped, Cap: c.expr(s.Cap), From: c.src(s.From), Span: sp(s.Range)}
	}
	c.fail("nil or unknown source %T", s)
	return &gen.Src{Kind: "?"}
}

func (c *conv) kod(k verifapi.KeptOrDestination) gen.KOD {
	switch k := k.(type) {
	case *verifapi.DestinationKept:
		if k == nil {
			break
		}
		return gen.KOD{Kept: true, Span: sp(k.Range)}
	case *verifapi.DestinationTo:
		if k == nil {
			break
		}
		return gen.KOD{Dst: c.dst(k.Destination)}
	}
	c.fail("nil or unknown kept-or-destination %T", k)
	return gen.KOD{Kept: true}
}

func (c *conv) dst(d verifapi.Destination) *gen.Dst {
	switch d := d.(type) {
	case *verifapi.DestinationAccount:
		if d == nil {
			break
		}
		e := c.expr(d.ValueExpr)
		return &gen.Dst{Kind: gen.DAcct, Addr: e, Span: e.Span}
	case *verifapi.DestinationInorder:
		if d == nil {
			break
		}
		out := &gen.Dst{Kind: gen.DInorder, Span: sp(d.Range)}
		for _, cl := range d.Clauses {
			out.Clauses = append(out.Clauses, gen.DstClause{Cap: c.expr(cl.Cap), To: c.kod(cl.To), Span: sp(cl.Range)})
		}
		k := c.kod(d.Remaining)
		out.Remaining = &k
		return out
	case *verifapi.DestinationAllotment:
		if d == nil {
			break
		}
		out := &gen.Dst{Kind: gen.DAllot, Span: sp(d.Range)}
		for _, it := range d.Items {
			out.Items = append(out.Items, gen.DstItem{Portion: c.allot(it.Allotment), To: c.kod(it.To), Span: sp(it.Range)})
		}
		return out
	}
	c.fail("nil or unknown destination %T", d)
	return &gen.Dst{Kind: "?"}
}

func (c *conv) call(f *verifapi.FnCall) *gen.Call {
	if f == nil || f.Caller == nil {
		c.fail("nil function call")
		return &gen.Call{}
	}
	out := &gen.Call{Fn: f.Caller.Name, Span: sp(f.Range), NameSpan: sp(f.Caller.Range)}
	for _, a := range f.Args {
		out.Args = append(out.Args, c.expr(a))
	}
	return out
}

func (c *conv) sent(st *gen.Stmt, sv verifapi.SentValue) {
	switch sv := sv.(type) {
	case *verifapi.SentValueLiteral:
		if sv == nil {
			break
		}
		st.Sent = c.expr(sv.Monetary)
		st.SentSpan = sp(sv.Range)
		return
	case *verifapi.SentValueAll:
		if sv == nil {
			break
		}
		st.All = true
		st.Sent = c.expr(sv.Asset)
		st.SentSpan = sp(sv.Range)
		return
	}
	c.fail("nil or unknown sent value %T", sv)
}

// Convert converts a parsed program.
func Convert(p verifapi.Program) (*gen.Script, error) {
	c := &conv{}
	s := &gen.Script{}
	for _, d := range p.Vars {
		vd := gen.VarDecl{Span: sp(d.Range)}
		if d.Type == nil || d.Name == nil {
			c.fail("declaration without type or name")
		} else {
			vd.Type, vd.TypeSpan = d.Type.Name, sp(d.Type.Range)
			vd.Name, vd.NameSpan = d.Name.Name, sp(d.Name.Range)
		}
		if d.Origin != nil {
			vd.Origin = c.call(d.Origin)
		}
		s.Vars = append(s.Vars, vd)
	}
	for _, st := range p.Statements {
		switch st := st.(type) {
		case *verifapi.SendStatement:
			if st == nil {
				c.fail("nil statement")
				continue
			}
			g := &gen.Stmt{Kind: gen.StSend, Span: sp(st.Range)}
			c.sent(g, st.SentValue)
			g.Src = c.src(st.Source)
			g.Dst = c.dst(st.Destination)
			s.Stmts = append(s.Stmts, g)
		case *verifapi.SaveStatement:
			if st == nil {
				c.fail("nil statement")
				continue
			}
			g := &gen.Stmt{Kind: gen.StSave, Span: sp(st.Range)}
			c.sent(g, st.SentValue)
			g.SaveFrom = c.expr(st.Amount)
			s.Stmts = append(s.Stmts, g)
		case *verifapi.FnCall:
			if st == nil {
				c.fail("nil statement")
				continue
			}
			call := c.call(st)
			s.Stmts = append(s.Stmts, &gen.Stmt{Kind: gen.StCall, Call: call, Span: call.Span})
		default:
			c.fail("nil or unknown statement %T", st)
		}
	}
	return s, c.err
}
