// Package hx runs the real numscript code on harness cases and normalises what it returns.
package hx

import (
	"context"
	"encoding/json"
	"fmt"
	"math/big"
	"runtime/debug"
	"sort"
	"strings"

	"github.com/formancehq/numscript"
	"github.com/formancehq/numscript/verifapi"

	"verifharness/doubles"
	"verifharness/gen"
	"verifharness/model"
)

type Posting struct {
	Src, Dst, Asset string
	Amt             *big.Int
}

func (p Posting) String() string { return fmt.Sprintf("%s->%s %s %s", p.Src, p.Dst, p.Asset, p.Amt) }

// Real is the normalised outcome of one real execution.
type Real struct {
	ParseErrors int
	Panic       string // non-empty: the call panicked (value + stack)
	ErrClass    string // model.E* class or "Other:<type>"
	ErrMsg      string
	ErrType     string
	// NonEmptyWithError: an error was returned together with postings or metadata
	NonEmptyWithError bool
	Postings          []Posting
	TxMeta            map[string]string // key -> "<go type>|<text>"
	TxMetaJSON        map[string]string
	AcctMeta          map[string]map[string]string
}

func (r Real) OK() bool { return r.Panic == "" && r.ErrClass == "" && r.ParseErrors == 0 }

func (r Real) Summary() string {
	if r.Panic != "" {
		return "PANIC " + firstLine(r.Panic)
	}
	if r.ParseErrors > 0 {
		return fmt.Sprintf("PARSE-ERRORS %d", r.ParseErrors)
	}
	if r.ErrClass != "" {
		return "ERROR " + r.ErrClass + " (" + r.ErrMsg + ")"
	}
	var ps []string
	for _, p := range r.Postings {
		ps = append(ps, p.String())
	}
	return "OK [" + strings.Join(ps, "; ") + "]"
}

func firstLine(s string) string {
	if i := strings.IndexByte(s, '\n'); i >= 0 {
		return s[:i]
	}
	return s
}

// Classify maps an interpreter error to the model's class names.
func Classify(err error) (class, typ string) {
	typ = fmt.Sprintf("%T", err)
	switch err.(type) {
	case verifapi.MissingFundsErr:
		return model.EMissingFunds, typ
	case verifapi.NegativeAmountErr:
		return model.ENegativeAmount, typ
	case verifapi.InvalidAllotmentSum:
		return model.EAllotmentSum, typ
	case verifapi.InvalidUnboundedInSendAll:
		return model.EUnboundedInSendAll, typ
	case verifapi.InvalidAllotmentInSendAll:
		return model.EAllotmentInSendAll, typ
	case verifapi.MismatchedCurrencyError:
		return model.EMismatchedCurrency, typ
	case verifapi.TypeError:
		return model.ETypeError, typ
	case verifapi.NegativeBalanceError:
		return model.ENegativeBalance, typ
	case verifapi.MetadataNotFound:
		return model.EMetadataNotFound, typ
	case verifapi.MissingVariableErr:
		return model.EMissingVariable, typ
	case verifapi.InvalidMonetaryLiteral, verifapi.InvalidNumberLiteral:
		return model.EBadVariableText, typ
	case verifapi.BadPortionParsingErr:
		return model.EBadPortion, typ
	case verifapi.InvalidAccountName:
		return model.EInvalidAccountName, typ
	case verifapi.ExperimentalFeature:
		return model.EExperimental, typ
	case verifapi.UnboundVariableErr:
		return model.EUnboundVariable, typ
	case verifapi.UnboundFunctionErr:
		return model.EUnboundFunction, typ
	case verifapi.BadArityErr:
		return model.EBadArity, typ
	case verifapi.InvalidTypeErr:
		return model.EInvalidType, typ
	case verifapi.QueryBalanceError:
		return "QueryBalance", typ
	case verifapi.QueryMetadataError:
		return "QueryMetadata", typ
	}
	return "Other:" + typ, typ
}

// Content builds store content from a case.
func Content(ec *gen.ExecCase) doubles.Content {
	c := doubles.Content{Balances: map[string]map[string]*big.Int{}, Meta: map[string]map[string]string{}}
	for a, m := range ec.Balances {
		c.Balances[a] = map[string]*big.Int{}
		for k, v := range m {
			n, ok := new(big.Int).SetString(v, 10)
			if !ok {
				panic("bad balance text in case: " + v)
			}
			c.Balances[a][k] = n
		}
	}
	for a, m := range ec.Meta {
		c.Meta[a] = map[string]string{}
		for k, v := range m {
			c.Meta[a][k] = v
		}
	}
	return c
}

// ModelInputs builds the reference interpreter's inputs from a case.
func ModelInputs(ec *gen.ExecCase) model.Inputs {
	in := model.Inputs{Vars: ec.Vars, Balances: model.Sheet{}, Meta: ec.Meta, Flags: map[string]bool{}}
	if in.Vars == nil {
		in.Vars = map[string]string{}
	}
	for a, m := range ec.Balances {
		for k, v := range m {
			n, _ := new(big.Int).SetString(v, 10)
			in.Balances.Set(a, k, n)
		}
	}
	for _, f := range ec.Flags {
		in.Flags[f] = true
	}
	return in
}

func FlagSet(flags []string) map[string]struct{} {
	if flags == nil {
		return nil
	}
	m := map[string]struct{}{}
	for _, f := range flags {
		m[f] = struct{}{}
	}
	return m
}

func copyVars(v map[string]string) map[string]string {
	out := map[string]string{}
	for k, x := range v {
		out[k] = x
	}
	return out
}

func normalise(res numscript.ExecutionResult, err error, out *Real) {
	if err != nil {
		out.ErrClass, out.ErrType = Classify(err)
		out.ErrMsg = err.Error()
		if len(res.Postings) != 0 || len(res.Metadata) != 0 || len(res.AccountsMetadata) != 0 {
			out.NonEmptyWithError = true
		}
		return
	}
	for _, p := range res.Postings {
		amt, ok := cleanCopy(p.Amount)
		if !ok {
			out.Panic = "a posting amount is not a well-formed big integer (its internal representation is corrupted)"
			out.Postings = nil
			return
		}
		out.Postings = append(out.Postings, Posting{p.Source, p.Destination, p.Asset, amt})
	}
	out.TxMeta = map[string]string{}
	out.TxMetaJSON = map[string]string{}
	for k, v := range res.Metadata {
		out.TxMeta[k] = fmt.Sprintf("%T|%s", v, v.String())
		if b, err := json.Marshal(v); err == nil {
			out.TxMetaJSON[k] = string(b)
		}
	}
	out.AcctMeta = map[string]map[string]string{}
	for a, m := range res.AccountsMetadata {
		out.AcctMeta[a] = map[string]string{}
		for k, v := range m {
			out.AcctMeta[a][k] = v
		}
	}
}

// RunText parses text and runs it through the public API against the given store.
func RunText(text string, vars map[string]string, store numscript.Store, flags []string) (out Real) {
	defer func() {
		if r := recover(); r != nil {
			out.Panic = fmt.Sprintf("%v\n%s", r, debug.Stack())
		}
	}()
	return runTextWarm(text, nil, nil, vars, store, flags)
}

// RunTextWarm is RunText preceded, on the same parse result, by an execution with other
// variable values (against its own store) whose outcome is discarded. Execution is a pure
// function of its inputs, so the earlier execution must not matter; values remembered from
// it (caches keyed by syntax nodes, values modified in place) show as a wrong result of the
// execution under test.
func RunTextWarm(text string, warm map[string]string, warmStore numscript.Store, vars map[string]string, store numscript.Store, flags []string) Real {
	return runTextWarm(text, warm, warmStore, vars, store, flags)
}

func runTextWarm(text string, warm map[string]string, warmStore numscript.Store, vars map[string]string, store numscript.Store, flags []string) (out Real) {
	defer func() {
		if r := recover(); r != nil {
			out.Panic = fmt.Sprintf("%v\n%s", r, debug.Stack())
		}
	}()
	pr := numscript.Parse(text)
	if n := len(pr.GetParsingErrors()); n != 0 {
		out.ParseErrors = n
		return
	}
	if warm != nil {
		func() {
			defer func() { _ = recover() }()
			_, _ = pr.RunWithFeatureFlags(context.Background(), copyVars(warm), warmStore, FlagSet(flags))
		}()
	}
	res, err := pr.RunWithFeatureFlags(context.Background(), copyVars(vars), store, FlagSet(flags))
	if err != nil {
		normalise(res, err, &out)
	} else {
		normalise(res, nil, &out)
	}
	return
}

// RunInternal calls interpreter.RunProgram directly: the public wrapper discards the
// result when an error is returned, so atomicity has to be observed here.
func RunInternal(text string, vars map[string]string, store numscript.Store, flags []string) (out Real) {
	return RunInternalWarm(text, nil, nil, vars, store, flags)
}

// RunInternalWarm: as RunTextWarm, on interpreter.RunProgram.
func RunInternalWarm(text string, warm map[string]string, warmStore numscript.Store, vars map[string]string, store numscript.Store, flags []string) (out Real) {
	defer func() {
		if r := recover(); r != nil {
			out.Panic = fmt.Sprintf("%v\n%s", r, debug.Stack())
		}
	}()
	pr := verifapi.Parse(text)
	if len(pr.Errors) != 0 {
		out.ParseErrors = len(pr.Errors)
		return
	}
	fl := FlagSet(flags)
	if fl == nil {
		fl = map[string]struct{}{}
	}
	if warm != nil {
		func() {
			defer func() { _ = recover() }()
			_, _ = verifapi.RunProgram(context.Background(), pr.Value, copyVars(warm), warmStore, fl)
		}()
	}
	res, err := verifapi.RunProgram(context.Background(), pr.Value, copyVars(vars), store, fl)
	if err != nil {
		out.ErrClass, out.ErrType = Classify(err)
		out.ErrMsg = err.Error()
		// an explicitly empty result next to the error is not "postings or metadata"
		if res != nil && (len(res.Postings) != 0 || len(res.Metadata) != 0 || len(res.AccountsMetadata) != 0) {
			out.NonEmptyWithError = true
		}
		return
	}
	if res == nil {
		out.Panic = "RunProgram returned (nil, nil)"
		return
	}
	normalise(*res, nil, &out)
	return
}

// Run runs a case (canonical print) against a fresh store of the given mode.
func Run(ec *gen.ExecCase, mode string) (Real, *doubles.Store) {
	st := doubles.New(mode, Content(ec))
	return RunTextEC(ec, gen.PrintCanonical(ec.Script), st), st
}

// RunTextEC / RunInternalEC run the given text with the case's variables and flags, after
// the case's warm-up execution if it has one.
func RunTextEC(ec *gen.ExecCase, text string, store numscript.Store) Real {
	if ec.Warm == nil {
		return RunText(text, ec.Vars, store, ec.Flags)
	}
	return RunTextWarm(text, ec.Warm, doubles.New(doubles.Superset, Content(ec)), ec.Vars, store, ec.Flags)
}

func RunInternalEC(ec *gen.ExecCase, text string, store numscript.Store) Real {
	if ec.Warm == nil {
		return RunInternal(text, ec.Vars, store, ec.Flags)
	}
	return RunInternalWarm(text, ec.Warm, doubles.New(doubles.Superset, Content(ec)), ec.Vars, store, ec.Flags)
}

// ---- per-statement grouping through prefix runs

// Group returns, for each statement, the postings it produced, obtained from runs of the
// real interpreter on the prefixes of the script. ok=false when the prefix runs are not
// prefix-consistent or one of them fails (C09 owns that).
func Group(ec *gen.ExecCase, whole Real, mode string) ([][]Posting, bool) {
	n := len(ec.Script.Stmts)
	out := make([][]Posting, n)
	prev := []Posting{}
	for k := 1; k <= n; k++ {
		var cur []Posting
		if k == n {
			cur = whole.Postings
		} else {
			pc := *ec
			pc.Script = ec.Script.Prefix(k)
			r, _ := Run(&pc, mode)
			if !r.OK() {
				return nil, false
			}
			cur = r.Postings
		}
		if len(cur) < len(prev) {
			return nil, false
		}
		for i := range prev {
			if prev[i].String() != cur[i].String() {
				return nil, false
			}
		}
		out[k-1] = cur[len(prev):]
		prev = cur
	}
	return out, true
}

// GroupPrefix is Group for an execution that failed: the postings of the statements of the
// longest prefix of the script that still executes (each obtained by a prefix run), and the
// outcome of the shortest prefix that fails (the whole script at the latest). ok is false
// when the prefix runs are not consistent with each other.
func GroupPrefix(ec *gen.ExecCase, whole Real, mode string) ([][]Posting, Real, bool) {
	n := len(ec.Script.Stmts)
	var out [][]Posting
	prev := []Posting{}
	for k := 1; k < n; k++ {
		pc := *ec
		pc.Script = ec.Script.Prefix(k)
		r, _ := Run(&pc, mode)
		if !r.OK() {
			return out, r, true
		}
		cur := r.Postings
		if len(cur) < len(prev) {
			return nil, whole, false
		}
		for i := range prev {
			if prev[i].String() != cur[i].String() {
				return nil, whole, false
			}
		}
		out = append(out, cur[len(prev):])
		prev = cur
	}
	return out, whole, true
}

// Sums of a posting list.
func Debits(ps []Posting) map[string]*big.Int {
	m := map[string]*big.Int{}
	for _, p := range ps {
		if m[p.Src] == nil {
			m[p.Src] = new(big.Int)
		}
		m[p.Src].Add(m[p.Src], p.Amt)
	}
	return m
}

func Credits(ps []Posting) map[string]*big.Int {
	m := map[string]*big.Int{}
	for _, p := range ps {
		if m[p.Dst] == nil {
			m[p.Dst] = new(big.Int)
		}
		m[p.Dst].Add(m[p.Dst], p.Amt)
	}
	return m
}

func Flows(ps []Posting) map[[2]string]*big.Int {
	m := map[[2]string]*big.Int{}
	for _, p := range ps {
		k := [2]string{p.Src, p.Dst}
		if m[k] == nil {
			m[k] = new(big.Int)
		}
		m[k].Add(m[k], p.Amt)
	}
	return m
}

// EqualSums compares two account->amount maps, treating absent as zero.
func EqualSums(a, b map[string]*big.Int) (string, bool) {
	keys := map[string]bool{}
	for k := range a {
		keys[k] = true
	}
	for k := range b {
		keys[k] = true
	}
	ks := make([]string, 0, len(keys))
	for k := range keys {
		ks = append(ks, k)
	}
	sort.Strings(ks)
	z := new(big.Int)
	for _, k := range ks {
		x, y := a[k], b[k]
		if x == nil {
			x = z
		}
		if y == nil {
			y = z
		}
		if x.Cmp(y) != 0 {
			return fmt.Sprintf("%s: %s vs %s", k, x, y), false
		}
	}
	return "", true
}

// Normalise converts what the public API returned into a Real.
func Normalise(res numscript.ExecutionResult, err numscript.InterpreterError) Real {
	var out Real
	if err != nil {
		normalise(res, err, &out)
	} else {
		normalise(res, nil, &out)
	}
	return out
}

// cleanCopy copies a big integer produced by the code under test through its decimal
// text, so that a value whose internal representation was corrupted (e.g. by in-place
// arithmetic on shared storage) cannot make the harness's own arithmetic panic.
func cleanCopy(x *big.Int) (out *big.Int, ok bool) {
	defer func() {
		if r := recover(); r != nil {
			out, ok = nil, false
		}
	}()
	if x == nil {
		return new(big.Int), true
	}
	n, good := new(big.Int).SetString(x.String(), 10)
	if !good {
		return nil, false
	}
	return n, true
}
