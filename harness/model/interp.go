// Package model contains the harness's reference semantics. interp.go is a reference
// interpreter written from the statements of properties C01-C09 (greedy draw, capped
// distribution, floor-and-leftover allotment, FIFO pairing, save/visibility rules) over
// arbitrary-precision numbers. It shares no code with internal/interpreter.
package model

import (
	"fmt"
	"math/big"
	"sort"
	"strings"

	"verifharness/gen"
)

const Kept = "<KEPT>"

// Value types
const (
	TAccount  = "account"
	TAsset    = "asset"
	TString   = "string"
	TNumber   = "number"
	TMonetary = "monetary"
	TPortion  = "portion"
)

type Val struct {
	T string
	S string   // account / asset / string content; asset of a monetary
	N *big.Int // number; amount of a monetary
	R *big.Rat // portion
}

// Text is the textual form a value takes in account metadata and in variables.
func (v Val) Text() string {
	switch v.T {
	case TAccount, TAsset, TString:
		return v.S
	case TNumber:
		return v.N.String()
	case TMonetary:
		return v.S + " " + v.N.String()
	case TPortion:
		return v.R.Num().String() + "/" + v.R.Denom().String()
	}
	return "?"
}

// Error classes
const (
	EMissingFunds       = "MissingFunds"
	ENegativeAmount     = "NegativeAmount"
	EAllotmentSum       = "InvalidAllotmentSum"
	EUnboundedInSendAll = "InvalidUnboundedInSendAll"
	EAllotmentInSendAll = "InvalidAllotmentInSendAll"
	EMismatchedCurrency = "MismatchedCurrency"
	ETypeError          = "TypeError"
	ENegativeBalance    = "NegativeBalance"
	EMetadataNotFound   = "MetadataNotFound"
	EMissingVariable    = "MissingVariable"
	EBadVariableText    = "BadVariableText"
	EExperimental       = "ExperimentalFeature"
	EUnboundVariable    = "UnboundVariable"
	EUnboundFunction    = "UnboundFunction"
	EBadArity           = "BadArity"
	EInvalidType        = "InvalidType"
	EBadPortion         = "BadPortion"
	EInvalidAccountName = "InvalidAccountName"
)

type Err struct {
	Class string
	Msg   string
	Stmt  int // -1: variable block
}

func (e *Err) Error() string { return e.Class + ": " + e.Msg }

type Sheet map[string]map[string]*big.Int

func (s Sheet) Get(acct, asset string) *big.Int {
	if m, ok := s[acct]; ok {
		if v, ok := m[asset]; ok {
			return v
		}
	}
	return new(big.Int)
}

func (s Sheet) Set(acct, asset string, v *big.Int) {
	m, ok := s[acct]
	if !ok {
		m = map[string]*big.Int{}
		s[acct] = m
	}
	m[asset] = new(big.Int).Set(v)
}

func (s Sheet) Add(acct, asset string, d *big.Int) {
	s.Set(acct, asset, new(big.Int).Add(s.Get(acct, asset), d))
}

func (s Sheet) Clone() Sheet {
	out := Sheet{}
	for a, m := range s {
		for k, v := range m {
			out.Set(a, k, v)
		}
	}
	return out
}

type Part struct {
	Acct string
	Amt  *big.Int
}

type StmtResult struct {
	Kind    string
	Asset   string
	Sent    *big.Int // amount drawn (= distributed)
	Kept    *big.Int
	Draws   []Part // in order, positive amounts only
	Recv    []Part // in order, positive amounts only; Acct == Kept for kept shares
	Flows   map[[2]string]*big.Int
	Debits  map[string]*big.Int
	Credits map[string]*big.Int
}

type Inputs struct {
	Vars     map[string]string
	Balances Sheet
	Meta     map[string]map[string]string
	Flags    map[string]bool
	// Steer, when set, holds for every statement the postings the real execution emitted for
	// it: after the reference execution of a send statement (whose result is recorded as
	// usual) the visible balances continue from the balances before that statement plus these
	// postings, not from the reference's own draws and credits. A statement is then judged
	// on the state the real execution was actually in, so that a divergence in one statement
	// is attributed to that statement only.
	Steer [][]Posting
}

type Posting struct {
	Src, Dst, Asset string
	Amt             *big.Int
}

type Result struct {
	Err      *Err
	Stmts    []StmtResult
	TxMeta   map[string]Val
	AcctMeta map[string]map[string]string
	Vis      Sheet // balances visible after the last statement
	Env      map[string]Val
	// Reads: (account, asset) pairs whose balance the execution consulted while something
	// was still needed (or in send-all mode), or through balance()/overdraft()
	Reads map[[2]string]bool
}

type state struct {
	in    Inputs
	env   map[string]Val
	vis   Sheet
	asset string
	drawn map[string]*big.Int
	draws []Part
	recv  []Part
	stmt  int
	reads map[[2]string]bool
}

func fail(class, f string, a ...any) *Err { return &Err{Class: class, Msg: fmt.Sprintf(f, a...)} }

// ParseVarText converts the text of a variable (or metadata entry) to a value of the declared type.
func ParseVarText(typ, raw string) (Val, *Err) {
	switch typ {
	case TAccount:
		if !validAccountName(raw) {
			return Val{}, fail(EInvalidAccountName, "account %q", raw)
		}
		return Val{T: TAccount, S: raw}, nil
	case TAsset:
		return Val{T: TAsset, S: raw}, nil
	case TString:
		return Val{T: TString, S: raw}, nil
	case TNumber:
		n, ok := parseDecimal(raw)
		if !ok {
			return Val{}, fail(EBadVariableText, "number %q", raw)
		}
		return Val{T: TNumber, N: n}, nil
	case TMonetary:
		parts := strings.Split(raw, " ")
		if len(parts) != 2 {
			return Val{}, fail(EBadVariableText, "monetary %q", raw)
		}
		n, ok := parseDecimal(parts[1])
		if !ok {
			return Val{}, fail(EBadVariableText, "monetary amount %q", raw)
		}
		return Val{T: TMonetary, S: parts[0], N: n}, nil
	case TPortion:
		r, ok := PortionValue(raw)
		if !ok {
			return Val{}, fail(EBadPortion, "portion %q", raw)
		}
		if r.Sign() < 0 || r.Cmp(big.NewRat(1, 1)) > 0 {
			return Val{}, fail(EBadPortion, "portion out of range %q", raw)
		}
		return Val{T: TPortion, R: r}, nil
	}
	return Val{}, fail(EInvalidType, "type %q", typ)
}

func parseDecimal(s string) (*big.Int, bool) {
	neg := false
	t := s
	if strings.HasPrefix(t, "-") {
		neg = true
		t = t[1:]
	} else if strings.HasPrefix(t, "+") {
		t = t[1:]
	}
	n, ok := digits(t)
	if !ok {
		return nil, false
	}
	if neg {
		n.Neg(n)
	}
	return n, true
}

// digits reads a non-empty string of ASCII digits in base ten (leading zeros are just zeros).
func digits(s string) (*big.Int, bool) {
	if s == "" {
		return nil, false
	}
	n := new(big.Int)
	ten := big.NewInt(10)
	for _, c := range s {
		if c < '0' || c > '9' {
			return nil, false
		}
		n.Mul(n, ten)
		n.Add(n, big.NewInt(int64(c-'0')))
	}
	return n, true
}

// PortionValue is the base-ten meaning of a portion text of the literal grammar:
// `n/d` (one optional space on either side of the slash), `p%`, `p.q%`.
func PortionValue(text string) (*big.Rat, bool) {
	if strings.HasSuffix(text, "%") {
		body := strings.TrimSuffix(text, "%")
		ip, fp := body, ""
		if i := strings.IndexByte(body, '.'); i >= 0 {
			ip, fp = body[:i], body[i+1:]
			if fp == "" {
				return nil, false
			}
		}
		n, ok := digits(ip + fp)
		if !ok || ip == "" {
			return nil, false
		}
		den := new(big.Int).Exp(big.NewInt(10), big.NewInt(int64(2+len(fp))), nil)
		return new(big.Rat).SetFrac(n, den), true
	}
	i := strings.IndexByte(text, '/')
	if i < 0 {
		return nil, false
	}
	a, b := text[:i], text[i+1:]
	a = strings.TrimSuffix(a, " ")
	b = strings.TrimPrefix(b, " ")
	n, ok1 := digits(a)
	d, ok2 := digits(b)
	if !ok1 || !ok2 || d.Sign() == 0 {
		return nil, false
	}
	return new(big.Rat).SetFrac(n, d), true
}

func (st *state) eval(e *gen.Expr) (Val, *Err) {
	switch e.Kind {
	case gen.EVar:
		v, ok := st.env[e.Text]
		if !ok {
			return Val{}, fail(EUnboundVariable, "$%s", e.Text)
		}
		return v, nil
	case gen.EAsset:
		return Val{T: TAsset, S: e.Text}, nil
	case gen.EStr:
		return Val{T: TString, S: e.Text}, nil
	case gen.EAcct:
		return Val{T: TAccount, S: e.Text}, nil
	case gen.ENum:
		n, ok := parseDecimal(e.Text)
		if !ok {
			return Val{}, fail(ETypeError, "bad number literal %q", e.Text)
		}
		return Val{T: TNumber, N: n}, nil
	case gen.EPortion:
		r, ok := PortionValue(e.Text)
		if !ok {
			return Val{}, fail(EBadPortion, "portion literal %q", e.Text)
		}
		return Val{T: TPortion, R: r}, nil
	case gen.EMon:
		a, err := st.evalAs(e.L, TAsset)
		if err != nil {
			return Val{}, err
		}
		n, err := st.evalAs(e.R, TNumber)
		if err != nil {
			return Val{}, err
		}
		return Val{T: TMonetary, S: a.S, N: n.N}, nil
	case gen.EInfix:
		l, err := st.eval(e.L)
		if err != nil {
			return Val{}, err
		}
		if l.T != TNumber && l.T != TMonetary {
			return Val{}, fail(ETypeError, "left operand of %s is %s", e.Op, l.T)
		}
		r, err := st.evalAs(e.R, l.T)
		if err != nil {
			return Val{}, err
		}
		if l.T == TMonetary && l.S != r.S {
			return Val{}, fail(EMismatchedCurrency, "%s vs %s", l.S, r.S)
		}
		n := new(big.Int)
		if e.Op == "+" {
			n.Add(l.N, r.N)
		} else {
			n.Sub(l.N, r.N)
		}
		return Val{T: l.T, S: l.S, N: n}, nil
	}
	return Val{}, fail(ETypeError, "unknown expression kind %s", e.Kind)
}

func (st *state) evalAs(e *gen.Expr, typ string) (Val, *Err) {
	v, err := st.eval(e)
	if err != nil {
		return Val{}, err
	}
	if v.T != typ {
		return Val{}, fail(ETypeError, "expected %s got %s", typ, v.T)
	}
	return v, nil
}

// monetary of the statement's asset
func (st *state) evalMonOf(e *gen.Expr) (*big.Int, *Err) {
	v, err := st.evalAs(e, TMonetary)
	if err != nil {
		return nil, err
	}
	if v.S != st.asset {
		return nil, fail(EMismatchedCurrency, "expected %s got %s", st.asset, v.S)
	}
	return v.N, nil
}

func max0(x *big.Int) *big.Int {
	if x.Sign() < 0 {
		return new(big.Int)
	}
	return new(big.Int).Set(x)
}

func minB(a, b *big.Int) *big.Int {
	if a.Cmp(b) < 0 {
		return new(big.Int).Set(a)
	}
	return new(big.Int).Set(b)
}

func (st *state) take(acct string, amt *big.Int) {
	d, ok := st.drawn[acct]
	if !ok {
		d = new(big.Int)
		st.drawn[acct] = d
	}
	d.Add(d, amt)
	if amt.Sign() > 0 {
		st.draws = append(st.draws, Part{acct, new(big.Int).Set(amt)})
	}
}

func (st *state) avail(acct string, grant *big.Int) *big.Int {
	a := new(big.Int).Set(st.vis.Get(acct, st.asset))
	if d, ok := st.drawn[acct]; ok {
		a.Sub(a, d)
	}
	if grant != nil {
		a.Add(a, grant)
	}
	return max0(a)
}

// draw: fixed-amount mode. Returns what the source gave (≤ need).
func (st *state) draw(s *gen.Src, need *big.Int) (*big.Int, *Err) {
	switch s.Kind {
	case gen.SAcct, gen.SOver:
		a, err := st.evalAs(s.Addr, TAccount)
		if err != nil {
			return nil, err
		}
		var grant *big.Int
		unbounded := false
		if s.Kind == gen.SOver {
			if s.Bound == nil {
				unbounded = true
			} else {
				g, err := st.evalMonOf(s.Bound)
				if err != nil {
					return nil, err
				}
				grant = g
			}
		}
		var give *big.Int
		if a.S == "world" || unbounded {
			give = new(big.Int).Set(need)
		} else {
			if need.Sign() > 0 && st.reads != nil {
				st.reads[[2]string{a.S, st.asset}] = true
			}
			give = minB(need, st.avail(a.S, grant))
		}
		st.take(a.S, give)
		return give, nil
	case gen.SInorder:
		left := new(big.Int).Set(need)
		for _, c := range s.Subs {
			g, err := st.draw(c, left)
			if err != nil {
				return nil, err
			}
			left.Sub(left, g)
		}
		return new(big.Int).Sub(need, left), nil
	case gen.SCapped:
		c, err := st.evalMonOf(s.Cap)
		if err != nil {
			return nil, err
		}
		return st.draw(s.From, minB(need, max0(c)))
	case gen.SAllot:
		var ps []gen.Allot
		for _, it := range s.Items {
			ps = append(ps, it.Portion)
		}
		shares, err := st.allot(need, ps)
		if err != nil {
			return nil, err
		}
		for i, it := range s.Items {
			g, err := st.draw(it.From, shares[i])
			if err != nil {
				return nil, err
			}
			if g.Cmp(shares[i]) != 0 {
				return nil, fail(EMissingFunds, "allotment item %d: needed %s got %s", i, shares[i], g)
			}
		}
		return new(big.Int).Set(need), nil
	}
	return nil, fail(ETypeError, "bad source kind %s", s.Kind)
}

// drawAll: send-all mode.
func (st *state) drawAll(s *gen.Src) (*big.Int, *Err) {
	switch s.Kind {
	case gen.SAcct, gen.SOver:
		a, err := st.evalAs(s.Addr, TAccount)
		if err != nil {
			return nil, err
		}
		var grant *big.Int
		if s.Kind == gen.SOver {
			if s.Bound == nil {
				return nil, fail(EUnboundedInSendAll, "%s", a.S)
			}
			// the interpreter evaluates the bound before looking at the account
			g, err := st.evalMonOf(s.Bound)
			if err != nil {
				return nil, err
			}
			grant = g
		}
		if a.S == "world" {
			return nil, fail(EUnboundedInSendAll, "world")
		}
		if st.reads != nil {
			st.reads[[2]string{a.S, st.asset}] = true
		}
		give := st.avail(a.S, grant)
		st.take(a.S, give)
		return give, nil
	case gen.SInorder:
		tot := new(big.Int)
		for _, c := range s.Subs {
			g, err := st.drawAll(c)
			if err != nil {
				return nil, err
			}
			tot.Add(tot, g)
		}
		return tot, nil
	case gen.SCapped:
		c, err := st.evalMonOf(s.Cap)
		if err != nil {
			return nil, err
		}
		return st.draw(s.From, max0(c))
	case gen.SAllot:
		return nil, fail(EAllotmentInSendAll, "allotment")
	}
	return nil, fail(ETypeError, "bad source kind %s", s.Kind)
}

// Allot computes floor shares with leftover units to the earliest clauses.
func (st *state) allot(x *big.Int, ps []gen.Allot) ([]*big.Int, *Err) {
	sum := new(big.Rat)
	rats := make([]*big.Rat, len(ps))
	rem := -1
	for i, p := range ps {
		switch p.Kind {
		case gen.ALit:
			r, ok := PortionValue(p.Text)
			if !ok {
				return nil, fail(EBadPortion, "portion literal %q", p.Text)
			}
			rats[i] = r
			sum.Add(sum, r)
		case gen.AVar:
			v, err := st.evalAs(gen.Var(p.Text), TPortion)
			if err != nil {
				return nil, err
			}
			rats[i] = v.R
			sum.Add(sum, v.R)
		case gen.ARemaining:
			rem = i
		}
	}
	one := big.NewRat(1, 1)
	if rem >= 0 {
		rats[rem] = new(big.Rat).Sub(one, sum)
		if rats[rem].Sign() < 0 {
			return nil, fail(EAllotmentSum, "portions add up to %s next to a remaining clause", sum)
		}
	} else if sum.Cmp(one) != 0 {
		return nil, fail(EAllotmentSum, "sum %s", sum)
	}
	return Shares(x, rats), nil
}

// Shares: share_i = floor(p_i * x) + [i < x - sum floor].
func Shares(x *big.Int, rats []*big.Rat) []*big.Int {
	out := make([]*big.Int, len(rats))
	tot := new(big.Int)
	for i, r := range rats {
		num := new(big.Int).Mul(r.Num(), x)
		q := new(big.Int)
		m := new(big.Int)
		q.DivMod(num, r.Denom(), m) // Euclidean: floor for positive denominators
		out[i] = q
		tot.Add(tot, q)
	}
	left := new(big.Int).Sub(x, tot)
	for i := 0; i < len(out) && left.Sign() > 0; i++ {
		out[i].Add(out[i], big.NewInt(1))
		left.Sub(left, big.NewInt(1))
	}
	return out
}

func (st *state) to(k *gen.KOD, x *big.Int) *Err {
	if k.Kept {
		if x.Sign() > 0 {
			st.recv = append(st.recv, Part{Kept, new(big.Int).Set(x)})
		}
		return nil
	}
	return st.distribute(k.Dst, x)
}

func (st *state) distribute(d *gen.Dst, x *big.Int) *Err {
	switch d.Kind {
	case gen.DAcct:
		a, err := st.evalAs(d.Addr, TAccount)
		if err != nil {
			return err
		}
		if x.Sign() > 0 {
			st.recv = append(st.recv, Part{a.S, new(big.Int).Set(x)})
		}
		return nil
	case gen.DInorder:
		left := new(big.Int).Set(x)
		for i := range d.Clauses {
			c, err := st.evalMonOf(d.Clauses[i].Cap)
			if err != nil {
				return err
			}
			if left.Sign() == 0 {
				break // nothing left: later caps are not even looked at
			}
			take := minB(max0(c), left)
			if take.Sign() > 0 {
				if err := st.to(&d.Clauses[i].To, take); err != nil {
					return err
				}
			}
			left.Sub(left, take)
		}
		if left.Sign() > 0 {
			return st.to(d.Remaining, left)
		}
		return nil
	case gen.DAllot:
		var ps []gen.Allot
		for _, it := range d.Items {
			ps = append(ps, it.Portion)
		}
		shares, err := st.allot(x, ps)
		if err != nil {
			return err
		}
		for i := range d.Items {
			if err := st.to(&d.Items[i].To, shares[i]); err != nil {
				return err
			}
		}
		return nil
	}
	return fail(ETypeError, "bad destination kind %s", d.Kind)
}

// Pair matches the draw list with the distribution list first-come-first-served.
func Pair(draws, recv []Part) map[[2]string]*big.Int {
	flows := map[[2]string]*big.Int{}
	i, j := 0, 0
	var dl, rl *big.Int
	for i < len(draws) && j < len(recv) {
		if dl == nil {
			dl = new(big.Int).Set(draws[i].Amt)
		}
		if rl == nil {
			rl = new(big.Int).Set(recv[j].Amt)
		}
		m := minB(dl, rl)
		if recv[j].Acct != Kept && m.Sign() > 0 {
			k := [2]string{draws[i].Acct, recv[j].Acct}
			if flows[k] == nil {
				flows[k] = new(big.Int)
			}
			flows[k].Add(flows[k], m)
		}
		dl.Sub(dl, m)
		rl.Sub(rl, m)
		if dl.Sign() == 0 {
			i++
			dl = nil
		}
		if rl.Sign() == 0 {
			j++
			rl = nil
		}
	}
	return flows
}

func (st *state) finishSend(res *StmtResult, sent *big.Int) {
	res.Sent = sent
	res.Draws = st.draws
	res.Recv = st.recv
	res.Flows = Pair(st.draws, st.recv)
	res.Kept = new(big.Int)
	for _, r := range st.recv {
		if r.Acct == Kept {
			res.Kept.Add(res.Kept, r.Amt)
		}
	}
	res.Debits = map[string]*big.Int{}
	res.Credits = map[string]*big.Int{}
	keys := make([][2]string, 0, len(res.Flows))
	for k := range res.Flows {
		keys = append(keys, k)
	}
	sort.Slice(keys, func(i, j int) bool {
		if keys[i][0] != keys[j][0] {
			return keys[i][0] < keys[j][0]
		}
		return keys[i][1] < keys[j][1]
	})
	for _, k := range keys {
		v := res.Flows[k]
		if res.Debits[k[0]] == nil {
			res.Debits[k[0]] = new(big.Int)
		}
		if res.Credits[k[1]] == nil {
			res.Credits[k[1]] = new(big.Int)
		}
		res.Debits[k[0]].Add(res.Debits[k[0]], v)
		res.Credits[k[1]].Add(res.Credits[k[1]], v)
		st.vis.Add(k[0], res.Asset, new(big.Int).Neg(v))
		st.vis.Add(k[1], res.Asset, v)
	}
}

func (st *state) runStmt(s *gen.Stmt) (StmtResult, *Err) {
	res := StmtResult{Kind: s.Kind}
	st.drawn = map[string]*big.Int{}
	st.draws, st.recv = nil, nil
	switch s.Kind {
	case gen.StSend:
		if s.All {
			a, err := st.evalAs(s.Sent, TAsset)
			if err != nil {
				return res, err
			}
			st.asset, res.Asset = a.S, a.S
			tot, err := st.drawAll(s.Src)
			if err != nil {
				return res, err
			}
			if err := st.distribute(s.Dst, tot); err != nil {
				return res, err
			}
			st.finishSend(&res, tot)
			return res, nil
		}
		m, err := st.evalAs(s.Sent, TMonetary)
		if err != nil {
			return res, err
		}
		st.asset, res.Asset = m.S, m.S
		if m.N.Sign() < 0 {
			return res, fail(ENegativeAmount, "%s", m.N)
		}
		got, err := st.draw(s.Src, m.N)
		if err != nil {
			return res, err
		}
		if got.Cmp(m.N) != 0 {
			return res, fail(EMissingFunds, "needed %s got %s", m.N, got)
		}
		if err := st.distribute(s.Dst, m.N); err != nil {
			return res, err
		}
		st.finishSend(&res, m.N)
		return res, nil
	case gen.StSave:
		var asset string
		var amt *big.Int
		if s.All {
			a, err := st.evalAs(s.Sent, TAsset)
			if err != nil {
				return res, err
			}
			asset = a.S
		} else {
			m, err := st.evalAs(s.Sent, TMonetary)
			if err != nil {
				return res, err
			}
			asset, amt = m.S, m.N
		}
		acct, err := st.evalAs(s.SaveFrom, TAccount)
		if err != nil {
			return res, err
		}
		res.Asset = asset
		if amt != nil && amt.Sign() < 0 {
			return res, fail(ENegativeAmount, "save %s", amt)
		}
		cur := st.vis.Get(acct.S, asset)
		if cur.Sign() >= 0 {
			if amt == nil {
				st.vis.Set(acct.S, asset, new(big.Int))
			} else {
				st.vis.Set(acct.S, asset, max0(new(big.Int).Sub(cur, amt)))
			}
		}
		return res, nil
	case gen.StCall:
		return res, nil
	}
	return res, fail(ETypeError, "bad statement kind")
}

// origin functions
func (st *state) origin(typ string, c *gen.Call) (Val, *Err) {
	var args []Val
	for _, a := range c.Args {
		v, err := st.eval(a)
		if err != nil {
			return Val{}, err
		}
		args = append(args, v)
	}
	sig := map[string][]string{
		"meta": {TAccount, TString}, "balance": {TAccount, TAsset}, "overdraft": {TAccount, TAsset},
	}[c.Fn]
	if sig == nil {
		return Val{}, fail(EUnboundFunction, "%s", c.Fn)
	}
	if c.Fn == "overdraft" && !st.in.Flags["experimental-overdraft-function"] {
		return Val{}, fail(EExperimental, "overdraft()")
	}
	for i, t := range sig {
		if i < len(args) && args[i].T != t {
			return Val{}, fail(ETypeError, "arg %d of %s", i, c.Fn)
		}
	}
	if len(args) != len(sig) {
		return Val{}, fail(EBadArity, "%s/%d", c.Fn, len(args))
	}
	switch c.Fn {
	case "meta":
		raw, ok := st.in.Meta[args[0].S][args[1].S]
		if !ok {
			return Val{}, fail(EMetadataNotFound, "%s.%s", args[0].S, args[1].S)
		}
		return ParseVarText(typ, raw)
	case "balance":
		if st.reads != nil {
			st.reads[[2]string{args[0].S, args[1].S}] = true
		}
		b := st.vis.Get(args[0].S, args[1].S)
		if args[0].S == "world" {
			b = new(big.Int) // the balance of @world is never looked at (C10)
		}
		if b.Sign() < 0 {
			return Val{}, fail(ENegativeBalance, "%s", args[0].S)
		}
		return Val{T: TMonetary, S: args[1].S, N: new(big.Int).Set(b)}, nil
	default: // overdraft
		if st.reads != nil {
			st.reads[[2]string{args[0].S, args[1].S}] = true
		}
		b := st.vis.Get(args[0].S, args[1].S)
		if args[0].S == "world" {
			b = new(big.Int)
		}
		return Val{T: TMonetary, S: args[1].S, N: max0(new(big.Int).Neg(b))}, nil
	}
}

// Run executes the script on the inputs under the reference semantics.
func Run(s *gen.Script, in Inputs) Result {
	st := &state{in: in, env: map[string]Val{}, vis: in.Balances.Clone(), stmt: -1, reads: map[[2]string]bool{}}
	res := Result{TxMeta: map[string]Val{}, AcctMeta: map[string]map[string]string{}, Reads: st.reads}
	for _, d := range s.Vars {
		var v Val
		var err *Err
		if d.Origin == nil {
			raw, ok := in.Vars[d.Name]
			if !ok {
				err = fail(EMissingVariable, "%s", d.Name)
			} else {
				v, err = ParseVarText(d.Type, raw)
			}
		} else {
			v, err = st.origin(d.Type, d.Origin)
		}
		if err != nil {
			err.Stmt = -1
			res.Err = err
			return res
		}
		st.env[d.Name] = v
	}
	res.Env = st.env
	for i, s := range s.Stmts {
		st.stmt = i
		if s.Kind == gen.StCall {
			if err := st.call(s.Call, &res); err != nil {
				err.Stmt = i
				res.Err = err
				res.Stmts = nil
				return res
			}
			res.Stmts = append(res.Stmts, StmtResult{Kind: gen.StCall})
			continue
		}
		var before Sheet
		if in.Steer != nil && s.Kind == gen.StSend && i < len(in.Steer) {
			before = st.vis.Clone()
		}
		r, err := st.runStmt(s)
		if err != nil {
			err.Stmt = i
			res.Err = err
			res.Stmts = nil
			return res
		}
		res.Stmts = append(res.Stmts, r)
		if before != nil {
			for _, p := range in.Steer[i] {
				before.Add(p.Src, p.Asset, new(big.Int).Neg(p.Amt))
				before.Add(p.Dst, p.Asset, p.Amt)
			}
			st.vis = before
		}
	}
	res.Vis = st.vis
	return res
}

func (st *state) call(c *gen.Call, res *Result) *Err {
	var args []Val
	for _, a := range c.Args {
		v, err := st.eval(a)
		if err != nil {
			return err
		}
		args = append(args, v)
	}
	switch c.Fn {
	case "set_tx_meta":
		if len(args) >= 1 && args[0].T != TString {
			return fail(ETypeError, "set_tx_meta key")
		}
		if len(args) != 2 {
			return fail(EBadArity, "set_tx_meta/%d", len(args))
		}
		res.TxMeta[args[0].S] = args[1]
		return nil
	case "set_account_meta":
		if len(args) >= 1 && args[0].T != TAccount {
			return fail(ETypeError, "set_account_meta account")
		}
		if len(args) >= 2 && args[1].T != TString {
			return fail(ETypeError, "set_account_meta key")
		}
		if len(args) != 3 {
			return fail(EBadArity, "set_account_meta/%d", len(args))
		}
		m, ok := res.AcctMeta[args[0].S]
		if !ok {
			m = map[string]string{}
			res.AcctMeta[args[0].S] = m
		}
		m[args[1].S] = args[2].Text()
		return nil
	}
	return fail(EUnboundFunction, "%s", c.Fn)
}

// Static facts about a script under given inputs, computed without executing statements.
type Static struct {
	Env map[string]Val
	// Asset of each statement ("" for calls or when it cannot be evaluated)
	Assets []string
	// Names every account-typed expression of the script can denote
	Names map[string]bool
	// Unbounded: accounts written with `allowing unbounded overdraft` somewhere (plus world)
	Unbounded map[string]bool
	// Grants: largest bounded overdraft granted per account and asset
	Grants map[[2]string]*big.Int
	VarErr *Err
}

// Analyse evaluates the variable block and collects the static facts the model-free
// oracles (C01, C02) need.
func Analyse(s *gen.Script, in Inputs) Static {
	out := Static{Names: map[string]bool{}, Unbounded: map[string]bool{"world": true}, Grants: map[[2]string]*big.Int{}}
	r := Run(&gen.Script{Vars: s.Vars}, in)
	if r.Err != nil {
		out.VarErr = r.Err
		return out
	}
	out.Env = r.Env
	st := &state{in: in, env: r.Env, vis: in.Balances.Clone()}
	s.WalkExprs(func(e *gen.Expr) {
		if e.Kind == gen.EAcct {
			out.Names[e.Text] = true
		}
	})
	for _, v := range r.Env {
		if v.T == TAccount {
			out.Names[v.S] = true
		}
	}
	var walk func(x *gen.Src, asset string)
	walk = func(x *gen.Src, asset string) {
		if x == nil {
			return
		}
		if x.Kind == gen.SOver {
			if a, err := st.evalAs(x.Addr, TAccount); err == nil {
				if x.Bound == nil {
					out.Unbounded[a.S] = true
				} else if b, err := st.evalAs(x.Bound, TMonetary); err == nil {
					k := [2]string{a.S, b.S}
					if cur, ok := out.Grants[k]; !ok || cur.Cmp(b.N) < 0 {
						out.Grants[k] = b.N
					}
				}
			}
		}
		for _, c := range x.Subs {
			walk(c, asset)
		}
		for _, it := range x.Items {
			walk(it.From, asset)
		}
		walk(x.From, asset)
	}
	for _, stm := range s.Stmts {
		asset := ""
		if stm.Kind != gen.StCall && stm.Sent != nil {
			if v, err := st.eval(stm.Sent); err == nil {
				if v.T == TAsset || v.T == TMonetary {
					asset = v.S
				}
			}
		}
		out.Assets = append(out.Assets, asset)
		walk(stm.Src, asset)
	}
	return out
}

// EvalIn evaluates an expression in a given variable environment.
func EvalIn(env map[string]Val, e *gen.Expr) (Val, bool) {
	st := &state{env: env, vis: Sheet{}}
	v, err := st.eval(e)
	return v, err == nil
}

// validAccountName: the syntax of account literals, [a-zA-Z0-9_-]+ (':' [a-zA-Z0-9_-]+)*
func validAccountName(s string) bool {
	if s == "" {
		return false
	}
	seg := 0
	for i := 0; i < len(s); i++ {
		c := s[i]
		switch {
		case c >= 'a' && c <= 'z', c >= 'A' && c <= 'Z', c >= '0' && c <= '9', c == '_', c == '-':
			seg++
		case c == ':':
			if seg == 0 {
				return false
			}
			seg = 0
		default:
			return false
		}
	}
	return seg > 0
}
