// Package verifapi is NOT part of formancehq/numscript. It is injected at build time
// by the verification harness through `go build -overlay` as a virtual package inside
// the numscript module, so that the harness (a different module) can reach the
// internal/ packages the properties are anchored in. It contains aliases only: no logic.
package verifapi

import (
	"encoding/json"

	"github.com/formancehq/numscript/internal/analysis"
	"github.com/formancehq/numscript/internal/interpreter"
	"github.com/formancehq/numscript/internal/lsp"
	"github.com/formancehq/numscript/internal/parser"
	antlrgen "github.com/formancehq/numscript/internal/parser/antlr"

	"github.com/antlr4-go/antlr/v4"
	"github.com/sourcegraph/jsonrpc2"
)

// ---- parser
type (
	Position    = parser.Position
	Range       = parser.Range
	ParserError = parser.ParserError
	ParseResult = parser.ParseResult
	Program     = parser.Program

	ValueExpr       = parser.ValueExpr
	Variable        = parser.Variable
	AssetLiteral    = parser.AssetLiteral
	NumberLiteral   = parser.NumberLiteral
	StringLiteral   = parser.StringLiteral
	MonetaryLiteral = parser.MonetaryLiteral
	AccountLiteral  = parser.AccountLiteral
	RatioLiteral    = parser.RatioLiteral
	BinaryInfix     = parser.BinaryInfix

	Source              = parser.Source
	SourceAccount       = parser.SourceAccount
	SourceInorder       = parser.SourceInorder
	SourceAllotment     = parser.SourceAllotment
	SourceAllotmentItem = parser.SourceAllotmentItem
	SourceCapped        = parser.SourceCapped
	SourceOverdraft     = parser.SourceOverdraft

	AllotmentValue     = parser.AllotmentValue
	RemainingAllotment = parser.RemainingAllotment

	Destination              = parser.Destination
	DestinationAccount       = parser.DestinationAccount
	DestinationInorder       = parser.DestinationInorder
	DestinationInorderClause = parser.DestinationInorderClause
	DestinationAllotment     = parser.DestinationAllotment
	DestinationAllotmentItem = parser.DestinationAllotmentItem
	KeptOrDestination        = parser.KeptOrDestination
	DestinationKept          = parser.DestinationKept
	DestinationTo            = parser.DestinationTo

	Statement        = parser.Statement
	FnCall           = parser.FnCall
	FnCallIdentifier = parser.FnCallIdentifier
	SentValue        = parser.SentValue
	SentValueLiteral = parser.SentValueLiteral
	SentValueAll     = parser.SentValueAll
	SendStatement    = parser.SendStatement
	SaveStatement    = parser.SaveStatement
	TypeDecl         = parser.TypeDecl
	VarDeclaration   = parser.VarDeclaration
)

var (
	Parse                = parser.Parse
	ParseErrorsToString  = parser.ParseErrorsToString
	ParsePercentageRatio = parser.ParsePercentageRatio
)

// ---- analysis
type (
	Diagnostic           = analysis.Diagnostic
	DiagnosticKind       = analysis.DiagnosticKind
	CheckResult          = analysis.CheckResult
	Hover                = analysis.Hover
	VariableHover        = analysis.VariableHover
	BuiltinFnHover       = analysis.BuiltinFnHover
	GotoDefinitionResult = analysis.GotoDefinitionResult
	DocumentSymbol       = analysis.DocumentSymbol

	DiagParsing                   = analysis.Parsing
	DiagInvalidType               = analysis.InvalidType
	DiagDuplicateVariable         = analysis.DuplicateVariable
	DiagUnboundVariable           = analysis.UnboundVariable
	DiagUnusedVar                 = analysis.UnusedVar
	DiagTypeMismatch              = analysis.TypeMismatch
	DiagRemainingIsNotLast        = analysis.RemainingIsNotLast
	DiagBadAllotmentSum           = analysis.BadAllotmentSum
	DiagFixedPortionVariable      = analysis.FixedPortionVariable
	DiagRedundantRemaining        = analysis.RedundantRemaining
	DiagUnknownFunction           = analysis.UnknownFunction
	DiagBadArity                  = analysis.BadArity
	DiagInvalidWorldOverdraft     = analysis.InvalidWorldOverdraft
	DiagNoAllotmentInSendAll      = analysis.NoAllotmentInSendAll
	DiagInvalidUnboundedAccount   = analysis.InvalidUnboundedAccount
	DiagEmptiedAccount            = analysis.EmptiedAccount
	DiagUnboundedAccountIsNotLast = analysis.UnboundedAccountIsNotLast
)

const (
	ErrorSeverity   = analysis.ErrorSeverity
	WarningSeverity = analysis.WarningSeverity
)

var (
	CheckSource    = analysis.CheckSource
	CheckProgram   = analysis.CheckProgram
	HoverOn        = analysis.HoverOn
	GotoDefinition = analysis.GotoDefinition
)

// ---- interpreter
type (
	Store            = interpreter.Store
	StaticStore      = interpreter.StaticStore
	Balances         = interpreter.Balances
	AccountBalance   = interpreter.AccountBalance
	AccountsMetadata = interpreter.AccountsMetadata
	AccountMetadata  = interpreter.AccountMetadata
	BalanceQuery     = interpreter.BalanceQuery
	MetadataQuery    = interpreter.MetadataQuery
	ExecutionResult  = interpreter.ExecutionResult
	InterpreterError = interpreter.InterpreterError
	Posting          = interpreter.Posting
	Sender           = interpreter.Sender
	Receiver         = interpreter.Receiver
	Value            = interpreter.Value

	MissingFundsErr           = interpreter.MissingFundsErr
	InvalidMonetaryLiteral    = interpreter.InvalidMonetaryLiteral
	InvalidNumberLiteral      = interpreter.InvalidNumberLiteral
	MetadataNotFound          = interpreter.MetadataNotFound
	InvalidAccountName        = interpreter.InvalidAccountName
	TypeError                 = interpreter.TypeError
	UnboundVariableErr        = interpreter.UnboundVariableErr
	BadPortionParsingErr      = interpreter.BadPortionParsingErr
	MissingVariableErr        = interpreter.MissingVariableErr
	UnboundFunctionErr        = interpreter.UnboundFunctionErr
	BadArityErr               = interpreter.BadArityErr
	InvalidTypeErr            = interpreter.InvalidTypeErr
	NegativeBalanceError      = interpreter.NegativeBalanceError
	NegativeAmountErr         = interpreter.NegativeAmountErr
	InvalidAllotmentInSendAll = interpreter.InvalidAllotmentInSendAll
	InvalidUnboundedInSendAll = interpreter.InvalidUnboundedInSendAll
	MismatchedCurrencyError   = interpreter.MismatchedCurrencyError
	InvalidAllotmentSum       = interpreter.InvalidAllotmentSum
	QueryBalanceError         = interpreter.QueryBalanceError
	QueryMetadataError        = interpreter.QueryMetadataError
	ExperimentalFeature       = interpreter.ExperimentalFeature
)

const (
	KeptAddr      = interpreter.KEPT_ADDR
	OverdraftFlag = interpreter.ExperimentalOverdraftFunctionFeatureFlag
)

var (
	RunProgram           = interpreter.RunProgram
	Reconcile            = interpreter.Reconcile
	ParsePortionSpecific = interpreter.ParsePortionSpecific
)

// ---- lsp
type LspState = lsp.State

var LspInitialState = lsp.InitialState

// LspHandle builds the jsonrpc2 request the server loop would have decoded and
// passes it to the real handler.
func LspHandle(state *LspState, method string, params []byte) any {
	raw := json.RawMessage(params)
	return lsp.Handle(jsonrpc2.Request{Method: method, Params: &raw}, state)
}

// ---- generated lexer (used only to validate the harness's own reference lexer)
type RawToken struct {
	Text string
	Line int // zero based
	Col  int
}

type countingListener struct {
	antlr.DefaultErrorListener
	n int
}

func (l *countingListener) SyntaxError(antlr.Recognizer, interface{}, int, int, string, antlr.RecognitionException) {
	l.n++
}

// LexAll runs the ANTLR-generated lexer alone and returns the default-channel tokens
// (without EOF) and the number of lexical errors it reported.
func LexAll(input string) ([]RawToken, int) {
	l := &countingListener{}
	lexer := antlrgen.NewNumscriptLexer(antlr.NewInputStream(input))
	lexer.RemoveErrorListeners()
	lexer.AddErrorListener(l)
	var out []RawToken
	for {
		t := lexer.NextToken()
		if t.GetTokenType() == antlr.TokenEOF {
			break
		}
		out = append(out, RawToken{Text: t.GetText(), Line: t.GetLine() - 1, Col: t.GetColumn()})
	}
	return out, l.n
}
