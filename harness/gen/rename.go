package gen

import "strings"

// Rename rewrites account and asset names consistently everywhere in the case: account and
// asset literals of the script, the values of plain variables of type account / asset /
// monetary, the balance sheet, and the metadata (holders, and the values read by
// metadata-backed variables of those types). Names not in the maps are kept. The maps must
// be injective and must not map onto names that are used unmapped.
func (ec *ExecCase) Rename(acct, asset map[string]string) {
	ra := func(s string) string {
		if n, ok := acct[s]; ok {
			return n
		}
		return s
	}
	rs := func(s string) string {
		if n, ok := asset[s]; ok {
			return n
		}
		return s
	}
	rm := func(s string) string { // "ASSET amount"
		if i := strings.IndexByte(s, ' '); i > 0 {
			return rs(s[:i]) + s[i:]
		}
		return s
	}
	byType := func(typ, val string) string {
		switch typ {
		case "account":
			return ra(val)
		case "asset":
			return rs(val)
		case "monetary":
			return rm(val)
		}
		return val
	}
	// metadata values first (they are looked up under the old holder names)
	for _, d := range ec.Script.Vars {
		if d.Origin == nil {
			if val, ok := ec.Vars[d.Name]; ok {
				ec.Vars[d.Name] = byType(d.Type, val)
			}
			if val, ok := ec.Warm[d.Name]; ok {
				ec.Warm[d.Name] = byType(d.Type, val)
			}
			continue
		}
		if d.Origin.Fn == "meta" && len(d.Origin.Args) == 2 && d.Origin.Args[0].Kind == EAcct && d.Origin.Args[1].Kind == EStr {
			holder, key := d.Origin.Args[0].Text, d.Origin.Args[1].Text
			if m, ok := ec.Meta[holder]; ok {
				if val, ok := m[key]; ok {
					m[key] = byType(d.Type, val)
				}
			}
		}
	}
	ec.Script.WalkExprs(func(e *Expr) {
		switch e.Kind {
		case EAcct:
			e.Text = ra(e.Text)
		case EAsset:
			e.Text = rs(e.Text)
		}
	})
	nb := map[string]map[string]string{}
	for a, m := range ec.Balances {
		nm := map[string]string{}
		for k, v := range m {
			nm[rs(k)] = v
		}
		nb[ra(a)] = nm
	}
	if ec.Balances != nil {
		ec.Balances = nb
	}
	nmeta := map[string]map[string]string{}
	for a, m := range ec.Meta {
		nmeta[ra(a)] = m
	}
	if ec.Meta != nil {
		ec.Meta = nmeta
	}
}

// CollidingNames: account and asset names whose concatenations coincide -
// "acc"+"ABC" = "accA"+"BC" = "accAB"+"C" (account + asset), and
// "s"+":"+"t:u" = "s:t"+":"+"u" (source : destination).
func CollidingNames(kind int) (acct, asset map[string]string) {
	if kind == 0 {
		return map[string]string{"a": "acc", "b": "accA", "c": "accAB"}, map[string]string{"USD": "ABC", "EUR": "BC", "COIN/2": "C"}
	}
	return map[string]string{"a": "s", "b": "s:t", "c": "t:u", "d": "u"}, map[string]string{}
}
