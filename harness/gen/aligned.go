package gen

import (
	"math/big"

	"pgregory.net/rapid"
)

// AlignedCase builds a script of one to three sends whose draw list and distribution list
// have *coinciding boundaries*: the sources are an ordered list of balance-limited accounts
// (optionally closed by @world), the destination is an ordered list of capped clauses, and
// the caps are chosen so that the running sums of the caps hit the running sums of the
// source balances (a source exhausted exactly when a clause is filled) most of the time.
// Accounts may appear on both sides. This is the alignment under which a pairing step
// finishes a sender and a receiver at once - the case free-form generation rarely produces.
//
// tight: the sources are drawn from {a, b} and the destinations from {c, d} only, so that
// under CollidingNames(1) the routes a->c and b->d (spelled s -> t:u and s:t -> u) follow
// each other often.
func AlignedCase(t *rapid.T, tight bool) *ExecCase {
	accts := []string{"a", "b", "c", "d"}
	srcPool := accts
	dnames := []string{"a", "b", "c", "d", "x"}
	if tight {
		srcPool = []string{"a", "b"}
		dnames = []string{"c", "d"}
	}
	asset := Pick(t, "al.asset", []string{"USD", "EUR"})
	bal := map[string]*big.Int{}
	for _, a := range accts {
		bal[a] = big.NewInt(int64(1 + Uniform(t, "al.bal", 6)))
	}
	s := &Script{}
	nst := 1 + Uniform(t, "al.nst", 3)
	cur := map[string]int64{}
	for a, v := range bal {
		cur[a] = v.Int64()
	}
	for si := 0; si < nst; si++ {
		ns := 2 + Uniform(t, "al.ns", 3)
		if ns > len(srcPool) {
			ns = len(srcPool)
		}
		var srcs []string
		used := map[string]bool{}
		for len(srcs) < ns {
			a := Pick(t, "al.src", srcPool)
			if used[a] {
				// a repeated account gives nothing the second time: keep the list simple
				continue
			}
			used[a] = true
			srcs = append(srcs, a)
			if len(used) == len(srcPool) {
				break
			}
		}
		var gives []int64
		tot := int64(0)
		for _, a := range srcs {
			g := cur[a]
			if g < 0 {
				g = 0
			}
			gives = append(gives, g)
			tot += g
		}
		withWorld := Chance(t, "al.world", 30)
		sent := tot
		if withWorld {
			sent = tot + int64(Uniform(t, "al.extra", 4))
		} else if tot > 0 && Chance(t, "al.less", 30) {
			sent = 1 + int64(Uniform(t, "al.sent", int(tot)))
		}
		src := &Src{Kind: SInorder}
		for _, a := range srcs {
			src.Subs = append(src.Subs, &Src{Kind: SAcct, Addr: Acct(a)})
		}
		if withWorld {
			src.Subs = append(src.Subs, &Src{Kind: SAcct, Addr: Acct("world")})
		}
		// destination clauses: caps follow the source boundaries, sometimes merged or split
		dst := &Dst{Kind: DInorder}
		i := 0
		for i < len(gives) && len(dst.Clauses) < 5 {
			var capv int64
			switch Uniform(t, "al.capkind", 6) {
			case 0, 1, 2:
				capv = gives[i]
				i++
			case 3:
				capv = gives[i]
				i++
				if i < len(gives) {
					capv += gives[i]
					i++
				}
			case 4:
				// split one source over two clauses
				if gives[i] >= 2 {
					h := 1 + int64(Uniform(t, "al.split", int(gives[i]-1)))
					dst.Clauses = append(dst.Clauses, DstClause{Cap: Mon(Asset(asset), NumI(h)), To: alignedKOD(t, dnames)})
					capv = gives[i] - h
				} else {
					capv = gives[i]
				}
				i++
			default:
				capv = int64(Uniform(t, "al.free", 5))
			}
			dst.Clauses = append(dst.Clauses, DstClause{Cap: Mon(Asset(asset), NumI(capv)), To: alignedKOD(t, dnames)})
		}
		rem := alignedKOD(t, dnames)
		dst.Remaining = &rem
		st := &Stmt{Kind: StSend, Sent: Mon(Asset(asset), NumI(sent)), Src: src, Dst: dst}
		if Chance(t, "al.all", 15) && !withWorld {
			st.All = true
			st.Sent = Asset(asset)
		}
		s.Stmts = append(s.Stmts, st)
		// later statements are tied to fresh small balances again: the exact state after this
		// statement is not tracked (credits to accounts on both sides), so re-draw loosely
		for _, a := range srcs {
			cur[a] = int64(Uniform(t, "al.next", 4))
		}
	}
	ec := &ExecCase{Script: s, Vars: map[string]string{}, Meta: map[string]map[string]string{}, Balances: map[string]map[string]string{}}
	for a, v := range bal {
		ec.Balances[a] = map[string]string{asset: v.String()}
	}
	return ec
}

func alignedKOD(t *rapid.T, names []string) KOD {
	if Chance(t, "al.kept", 12) {
		return KOD{Kept: true}
	}
	return KOD{Dst: &Dst{Kind: DAcct, Addr: Acct(Pick(t, "al.dst", names))}}
}
