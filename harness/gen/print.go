package gen

import (
	"strings"

	"verifharness/lex"
)

// Layout decides the separator written before token i (0 = before the first token,
// n = after the last one). prev/next are the neighbouring token texts ("" at the ends).
type Layout interface {
	Sep(i int, prev, next string) string
}

type canonical struct{}

func (canonical) Sep(i int, prev, next string) string {
	if prev == "" || next == "" {
		return ""
	}
	return " "
}

// Canonical separates all tokens by one space.
var Canonical Layout = canonical{}

// ListLayout replays a list of candidate separators (drawn by a generator). A candidate
// that would glue or re-tokenise its neighbours (as judged by the reference lexer) is
// replaced by a newline.
type ListLayout struct {
	Seps     []string
	Replaced int
}

func (l *ListLayout) Sep(i int, prev, next string) string {
	cand := " "
	if len(l.Seps) > 0 {
		cand = l.Seps[i%len(l.Seps)]
	}
	if SepOK(prev, cand, next) {
		return cand
	}
	l.Replaced++
	if prev == "" || next == "" {
		return ""
	}
	return "\n"
}

// GlueLayout is ListLayout, except that a comment candidate placed right after a token
// that ends in a letter A-Z, a digit or a slash is written as it is, without asking the
// reference lexer (the asset rule [A-Z/0-9]+ then swallows the comment's first slash).
// With Pad set, a blank is written before such a comment instead.
type GlueLayout struct {
	Seps       []string
	Pad        bool
	Glued      int
	StringCase int
}

func endsInAssetChar(tok string) bool {
	if tok == "" {
		return false
	}
	c := tok[len(tok)-1]
	return (c >= 'A' && c <= 'Z') || (c >= '0' && c <= '9') || c == '/'
}

func (l *GlueLayout) Sep(i int, prev, next string) string {
	cand := " "
	if len(l.Seps) > 0 {
		cand = l.Seps[i%len(l.Seps)]
	}
	isComment := len(cand) >= 2 && cand[0] == '/' && (cand[1] == '*' || cand[1] == '/')
	if isComment && endsInAssetChar(prev) && next != "" && SepOK(prev, " "+cand, next) {
		l.Glued++
		if l.Pad {
			return " " + cand
		}
		return cand
	}
	// a comment containing a quote, on the same line as a string that ends in a backslash:
	// the string rule reads \" as an escaped quote and runs on to the comment's quote
	if isComment && len(prev) >= 3 && prev[0] == '"' && prev[len(prev)-2] == '\\' && strings.Contains(cand, "\"") && next != "" && SepOK(prev, "\n"+cand, next) {
		l.Glued++
		l.StringCase++
		if l.Pad {
			return "\n" + cand
		}
		return " " + cand
	}
	if SepOK(prev, cand, next) {
		return cand
	}
	if prev == "" || next == "" {
		return ""
	}
	return "\n"
}

// SepOK: does prev+sep+next lex as exactly [prev, next]?
func SepOK(prev, sep, next string) bool {
	var want []string
	if prev != "" {
		want = append(want, prev)
	}
	if next != "" {
		want = append(want, next)
	}
	r := lex.Lex(prev + sep + next)
	if r.Uncertain || len(r.Errors) != 0 || len(r.Tokens) != len(want) {
		return false
	}
	for i := range want {
		if r.Tokens[i].Text != want[i] {
			return false
		}
	}
	return true
}

type Printed struct {
	Text   string
	Tokens []string
	// per token: start line / column (code points)
	Line, Col []int
}

type mark struct {
	first, last int
	set         func(Span)
}

type printer struct {
	toks  []string
	marks []mark
}

func (p *printer) tok(t string) { p.toks = append(p.toks, t) }

func (p *printer) node(set func(Span), body func()) {
	first := len(p.toks)
	body()
	last := len(p.toks) - 1
	if last >= first {
		p.marks = append(p.marks, mark{first, last, set})
	}
}

func (p *printer) expr(e *Expr) {
	p.node(func(s Span) { e.Span = &s }, func() {
		switch e.Kind {
		case EVar:
			p.tok("$" + e.Text)
		case EAsset:
			p.tok(e.Text)
		case EStr:
			p.tok(`"` + e.Text + `"`)
		case EAcct:
			p.tok("@" + e.Text)
		case ENum:
			p.tok(e.Text)
		case EPortion:
			p.tok(e.Text)
		case EMon:
			p.tok("[")
			p.expr(e.L)
			p.expr(e.R)
			p.tok("]")
		case EInfix:
			p.expr(e.L)
			p.tok(e.Op)
			p.expr(e.R)
		default:
			panic("bad expr kind " + e.Kind)
		}
	})
}

func (p *printer) allot(a *Allot) {
	p.node(func(s Span) { a.Span = &s }, func() {
		switch a.Kind {
		case ALit:
			p.tok(a.Text)
		case AVar:
			p.tok("$" + a.Text)
		case ARemaining:
			p.tok("remaining")
		default:
			panic("bad allot kind " + a.Kind)
		}
	})
}

func (p *printer) src(x *Src) {
	p.node(func(s Span) { x.Span = &s }, func() {
		switch x.Kind {
		case SAcct:
			p.expr(x.Addr)
		case SOver:
			p.expr(x.Addr)
			p.tok("allowing")
			if x.Bound == nil {
				p.tok("unbounded")
				p.tok("overdraft")
			} else {
				p.tok("overdraft")
				p.tok("up")
				p.tok("to")
				p.expr(x.Bound)
			}
		case SInorder:
			p.tok("{")
			for _, c := range x.Subs {
				p.src(c)
			}
			p.tok("}")
		case SAllot:
			p.tok("{")
			for i := range x.Items {
				it := &x.Items[i]
				p.node(func(s Span) { it.Span = &s }, func() {
					p.allot(&it.Portion)
					p.tok("from")
					p.src(it.From)
				})
			}
			p.tok("}")
		case SCapped:
			p.tok("max")
			p.expr(x.Cap)
			p.tok("from")
			p.src(x.From)
		default:
			panic("bad src kind " + x.Kind)
		}
	})
}

func (p *printer) kod(k *KOD) {
	if k.Kept {
		p.node(func(s Span) { k.Span = &s }, func() { p.tok("kept") })
		return
	}
	p.tok("to")
	p.dst(k.Dst)
}

func (p *printer) dst(x *Dst) {
	p.node(func(s Span) { x.Span = &s }, func() {
		switch x.Kind {
		case DAcct:
			p.expr(x.Addr)
		case DInorder:
			p.tok("{")
			for i := range x.Clauses {
				c := &x.Clauses[i]
				p.node(func(s Span) { c.Span = &s }, func() {
					p.tok("max")
					p.expr(c.Cap)
					p.kod(&c.To)
				})
			}
			p.tok("remaining")
			p.kod(x.Remaining)
			p.tok("}")
		case DAllot:
			p.tok("{")
			for i := range x.Items {
				it := &x.Items[i]
				p.node(func(s Span) { it.Span = &s }, func() {
					p.allot(&it.Portion)
					p.kod(&it.To)
				})
			}
			p.tok("}")
		default:
			panic("bad dst kind " + x.Kind)
		}
	})
}

func (p *printer) call(c *Call) {
	p.node(func(s Span) { c.Span = &s }, func() {
		p.node(func(s Span) { c.NameSpan = &s }, func() { p.tok(c.Fn) })
		p.tok("(")
		for i, a := range c.Args {
			if i > 0 {
				p.tok(",")
			}
			p.expr(a)
		}
		p.tok(")")
	})
}

func (p *printer) sent(st *Stmt) {
	p.node(func(s Span) { st.SentSpan = &s }, func() {
		if st.All {
			p.tok("[")
			p.expr(st.Sent)
			p.tok("*")
			p.tok("]")
		} else {
			p.expr(st.Sent)
		}
	})
}

func (p *printer) stmt(st *Stmt) {
	p.node(func(s Span) { st.Span = &s }, func() {
		switch st.Kind {
		case StSend:
			p.tok("send")
			p.sent(st)
			p.tok("(")
			p.tok("source")
			p.tok("=")
			p.src(st.Src)
			p.tok("destination")
			p.tok("=")
			p.dst(st.Dst)
			p.tok(")")
		case StSave:
			p.tok("save")
			p.sent(st)
			p.tok("from")
			p.expr(st.SaveFrom)
		case StCall:
			p.call(st.Call)
		default:
			panic("bad stmt kind " + st.Kind)
		}
	})
}

func (p *printer) script(s *Script) {
	if s.HasVars || len(s.Vars) > 0 {
		p.tok("vars")
		p.tok("{")
		for i := range s.Vars {
			v := &s.Vars[i]
			p.node(func(sp Span) { v.Span = &sp }, func() {
				p.node(func(sp Span) { v.TypeSpan = &sp }, func() { p.tok(v.Type) })
				p.node(func(sp Span) { v.NameSpan = &sp }, func() { p.tok("$" + v.Name) })
				if v.Origin != nil {
					p.tok("=")
					p.call(v.Origin)
				}
			})
		}
		p.tok("}")
	}
	for _, st := range s.Stmts {
		p.stmt(st)
	}
}

// Print renders the script with the given layout and stores, on every node of the
// script, the span its tokens occupy in the produced text.
func Print(s *Script, lay Layout) Printed {
	p := &printer{}
	p.script(s)
	return p.finish(lay)
}

// PrintCanonical renders with single spaces and does not need span bookkeeping by callers.
func PrintCanonical(s *Script) string { return Print(s, Canonical).Text }

func (p *printer) finish(lay Layout) Printed {
	var sb strings.Builder
	n := len(p.toks)
	out := Printed{Tokens: p.toks, Line: make([]int, n), Col: make([]int, n)}
	line, col := 0, 0
	adv := func(s string) {
		for _, r := range s {
			if r == '\n' {
				line++
				col = 0
			} else {
				col++
			}
		}
		sb.WriteString(s)
	}
	for i, t := range p.toks {
		prev := ""
		if i > 0 {
			prev = p.toks[i-1]
		}
		adv(lay.Sep(i, prev, t))
		out.Line[i], out.Col[i] = line, col
		adv(t)
	}
	if n > 0 {
		adv(lay.Sep(n, p.toks[n-1], ""))
	} else {
		adv(lay.Sep(0, "", ""))
	}
	out.Text = sb.String()
	for _, m := range p.marks {
		lt := p.toks[m.last]
		m.set(Span{
			SL: out.Line[m.first], SC: out.Col[m.first],
			EL: out.Line[m.last], EC: out.Col[m.last] + lex.RuneLen(lt),
		})
	}
	return out
}

// LexMatches reports whether the reference lexer reads the printed text back as exactly
// the printed tokens at the recorded positions (harness self-check).
func (p Printed) LexMatches() bool {
	r := lex.Lex(p.Text)
	if len(r.Errors) != 0 || len(r.Tokens) != len(p.Tokens) {
		return false
	}
	for i, t := range r.Tokens {
		if t.Text != p.Tokens[i] || t.Line != p.Line[i] || t.Col != p.Col[i] {
			return false
		}
	}
	return true
}
