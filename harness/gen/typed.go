package gen

import (
	"fmt"
	"math/big"
	"sort"
	"strings"

	"pgregory.net/rapid"
)

// ExecCase is a script together with everything an execution needs. It is the
// serialisable unit of replay for the execution properties.
type ExecCase struct {
	Script   *Script                      `json:"script"`
	Vars     map[string]string            `json:"vars,omitempty"`
	Balances map[string]map[string]string `json:"balances,omitempty"`
	Meta     map[string]map[string]string `json:"meta,omitempty"`
	Flags    []string                     `json:"flags,omitempty"`
	// Warm, when not nil, is a second assignment of the caller-supplied variables: the
	// parsed script is first executed once with it (outcome discarded) and then with Vars.
	// An execution must not depend on an earlier one of the same parsed script.
	Warm map[string]string `json:"warm,omitempty"`
}

// Display is what evidence samples show: the script as text plus its inputs.
func (ec *ExecCase) Display() any {
	return map[string]any{"script": PrintCanonical(ec.Script.Clone()), "vars": ec.Vars, "balances": ec.Balances, "meta": ec.Meta, "flags": ec.Flags}
}

// Knobs steer the typed generator. The zero value is not useful; start from DefaultKnobs.
type Knobs struct {
	MinStmts, MaxStmts int
	MaxDepth           int // nesting of sources / destinations
	MaxWidth           int // list widths
	Assets             []string
	Accounts           []string // accounts that may hold balances and be sources
	DestOnly           []string // extra accounts used only as destinations

	PSendAll   int // percentages among statements
	PSave      int
	PCall      int
	PKept      int
	PUnbounded int // unbounded overdraft among account sources
	PWorld     int
	PBounded   int
	PAllotSrc  int
	PVarRepr   int  // chance that a value is written through a variable
	PInfix     int  // chance that a number / monetary is written as an infix expression
	PBig       int  // chance that a number comes from the big pool (through variables)
	PNegCap    int  // chance that a cap / overdraft bound is negative or zero
	PNegBal    int  // chance that a balance is negative
	POrigin    int  // chance that a variable gets a meta()/balance()/overdraft() origin
	SameAsset  bool // every statement uses the first asset
	EvenAssets bool // all assets equally likely (default: the first one is favoured)
	// PWorldFallback: chance that the source of a fixed send is wrapped as { S @world } so
	// that the statement cannot run out of funds
	PWorldFallback int
	// PRich: chance that a balance is comfortably large (40..120)
	PRich int

	// ShapeFaults allows unbounded / allotment sources directly under send-all
	ShapeFaults bool
	// NoBalanceOrigins forbids balance()/overdraft() origins (C09's domain)
	NoBalanceOrigins bool
	// OverdraftFlag: the overdraft() function may be used (the case carries the feature flag)
	OverdraftFlag bool
	// PWeirdAccount: chance that an account is written through a variable whose text is not
	// an account name of the literal grammar (empty, the kept marker, blanks, sigils)
	PWeirdAccount int
	// POverUnity: chance that an allotment has a `remaining` clause while its other portions
	// add up to more than one (and `remaining` anywhere, not only last)
	POverUnity int
	// PReuse: chance that a value is written through an already declared variable of the
	// same type (and, for accounts / assets, the same value) instead of a fresh spelling
	PReuse int
	// SafeBalanceOrigins: balance() is only applied to (account, asset) pairs whose balance
	// is not negative, so that the variable block cannot fail
	SafeBalanceOrigins bool
	// PWorldOddPlaces: chance that @world is used where it is legal but unusual: as the
	// account of a save statement or of a balance() / overdraft() origin
	PWorldOddPlaces int
	// PBalanceOrigin: chance (per case, up to 3 times) of a variable initialised by
	// balance() / overdraft(); such variables are then used as sent amounts and caps
	PBalanceOrigin int
	// PWarm: chance that the case carries a warm-up assignment of its variables (ExecCase.Warm)
	PWarm int
	// PZeroPad: chance that the text of a number / monetary variable is written with leading
	// zeros ("007", "USD 0100"): base ten whatever the spelling
	PZeroPad int
}

func DefaultKnobs() Knobs {
	return Knobs{
		MinStmts: 1, MaxStmts: 4, MaxDepth: 3, MaxWidth: 4,
		Assets:   []string{"USD", "EUR", "COIN/2", "BTC/8"},
		Accounts: []string{"a", "b", "c", "d"},
		DestOnly: []string{"x", "y", "z:1"},
		PSendAll: 25, PSave: 12, PCall: 8, PKept: 12, PUnbounded: 5, PWorld: 8, PBounded: 18,
		PAllotSrc: 12, PVarRepr: 22, PInfix: 10, PBig: 6, PNegCap: 12, PNegBal: 12, POrigin: 15,
		PWorldFallback: 30, PRich: 15, PReuse: 25, PWarm: 20, PZeroPad: 6,
	}
}

// TG is the typed generator state for one case.
type TG struct {
	T     *rapid.T
	K     Knobs
	Decls []VarDecl
	Vars  map[string]string
	Bal   map[string]map[string]*big.Int
	Meta  map[string]map[string]string
	Nums  []*big.Int // interesting numbers (from balances, earlier amounts)
	nvar  int
	// UsesOverdraftFn is set when an overdraft() origin was generated
	UsesOverdraftFn bool
	BalVars         []BalVar
	// Declared plain / meta-backed variables, for reuse: a variable used several times is
	// where aliasing defects (a value modified in place through one use) show
	Declared []DeclaredVar
}

type DeclaredVar struct {
	Name, Type, Text string
	// holder and key when the variable is read through meta()
	MetaAcct, MetaKey string
}

// BalVar is a monetary variable whose value comes from balance() / overdraft().
type BalVar struct {
	Name, Asset string
	Val         *big.Int
}

func NewTG(t *rapid.T, k Knobs) *TG {
	return &TG{T: t, K: k, Vars: map[string]string{}, Bal: map[string]map[string]*big.Int{}, Meta: map[string]map[string]string{}}
}

func (g *TG) n(label string, lo, hi int) int {
	if hi <= lo {
		return lo
	}
	return lo + Uniform(g.T, label, hi-lo+1)
}

func (g *TG) pct(label string, p int) bool {
	if p <= 0 {
		return false
	}
	return Chance(g.T, label, p)
}

func pickS(g *TG, label string, xs []string) string {
	return xs[g.n(label, 0, len(xs)-1)]
}

var two64 = new(big.Int).Lsh(big.NewInt(1), 64)
var bigPool = []*big.Int{
	new(big.Int).Sub(two64, big.NewInt(1)), two64, new(big.Int).Add(two64, big.NewInt(1)),
	new(big.Int).Lsh(big.NewInt(1), 63), new(big.Int).Sub(new(big.Int).Lsh(big.NewInt(1), 63), big.NewInt(1)),
	new(big.Int).Exp(big.NewInt(10), big.NewInt(30), nil),
	new(big.Int).Lsh(big.NewInt(1), 70), new(big.Int).Add(new(big.Int).Lsh(big.NewInt(1), 70), big.NewInt(3)),
	big.NewInt(1 << 31), big.NewInt(1<<32 + 1),
}

// Amount draws a non-negative amount: small numbers dominate, then numbers tied to the
// balances and amounts seen so far (n-1, n, n+1, n/2, sums), then big ones.
func (g *TG) Amount(label string) *big.Int {
	c := g.n(label+".cls", 0, 99)
	switch {
	case c < g.K.PBig:
		b := bigPool[g.n(label+".big", 0, len(bigPool)-1)]
		return new(big.Int).Set(b)
	case c < g.K.PBig+40 && len(g.Nums) > 0:
		base := g.Nums[g.n(label+".tie", 0, len(g.Nums)-1)]
		v := new(big.Int).Set(base)
		switch g.n(label+".adj", 0, 6) {
		case 0:
			v.Sub(v, big.NewInt(1))
		case 1:
			v.Add(v, big.NewInt(1))
		case 2:
			v.Rsh(v, 1)
		case 3:
			if len(g.Nums) > 1 {
				v.Add(v, g.Nums[g.n(label+".tie2", 0, len(g.Nums)-1)])
			}
		}
		if v.Sign() < 0 {
			v.Neg(v)
		}
		return v
	default:
		return big.NewInt(int64(g.n(label+".small", 0, 12)))
	}
}

func (g *TG) note(n *big.Int) {
	if len(g.Nums) < 24 {
		g.Nums = append(g.Nums, new(big.Int).Set(n))
	}
}

// Sheet draws the starting balances. Must be called before the script is generated so
// that amounts can be tied to balances.
func (g *TG) Sheet() {
	for _, a := range g.K.Accounts {
		for _, as := range g.K.Assets {
			c := g.n("bal.cls", 0, 99)
			var v *big.Int
			switch {
			case c < 18:
				continue // absent
			case c < 28:
				v = big.NewInt(0)
			case c < 28+g.K.PNegBal:
				v = big.NewInt(int64(-g.n("bal.neg", 1, 9)))
			case c < 28+g.K.PNegBal+g.K.PBig:
				v = new(big.Int).Set(bigPool[g.n("bal.big", 0, len(bigPool)-1)])
			case c < 28+g.K.PNegBal+g.K.PBig+g.K.PRich:
				v = big.NewInt(int64(g.n("bal.rich", 40, 120)))
			default:
				v = big.NewInt(int64(g.n("bal.small", 1, 15)))
			}
			if g.Bal[a] == nil {
				g.Bal[a] = map[string]*big.Int{}
			}
			g.Bal[a][as] = v
			if v.Sign() > 0 {
				g.note(v)
			}
		}
	}
}

func (g *TG) newVarName() string {
	g.nvar++
	names := []string{"v", "w", "acc", "amt", "p", "k_1", "m"}
	return fmt.Sprintf("%s%d", names[g.nvar%len(names)], g.nvar)
}

// declare adds a variable of the given type holding the given text, possibly through a
// meta() origin. Returns its name.
func (g *TG) declare(typ, text string) string {
	name := g.newVarName()
	if (typ == "number" || typ == "monetary") && g.pct("zeropad", g.K.PZeroPad) {
		text = ZeroPad(text, 1+g.n("zeropad.n", 0, 2))
	}
	d := VarDecl{Type: typ, Name: name}
	if g.pct("origin", g.K.POrigin) {
		acct := pickS(g, "origin.acct", append(append([]string{}, g.K.Accounts...), "meta:holder"))
		key := fmt.Sprintf("key%d", g.nvar)
		if g.Meta[acct] == nil {
			g.Meta[acct] = map[string]string{}
		}
		g.Meta[acct][key] = text
		d.Origin = &Call{Fn: "meta", Args: []*Expr{Acct(acct), Str(key)}}
	} else {
		g.Vars[name] = text
	}
	g.Decls = append(g.Decls, d)
	dv := DeclaredVar{Name: name, Type: typ, Text: text}
	if d.Origin != nil {
		dv.MetaAcct, dv.MetaKey = d.Origin.Args[0].Text, d.Origin.Args[1].Text
	}
	g.Declared = append(g.Declared, dv)
	return name
}

// ZeroPad writes k zeros in front of the digits of a number ("12" -> "0012", "-5" -> "-05")
// or of the amount of a monetary ("USD 12" -> "USD 0012").
func ZeroPad(text string, k int) string {
	i := 0
	for j := 0; j < len(text); j++ {
		if text[j] == ' ' {
			i = j + 1
		}
	}
	if i < len(text) && text[i] == '-' {
		i++
	}
	if i >= len(text) || text[i] < '0' || text[i] > '9' {
		return text
	}
	z := ""
	for ; k > 0; k-- {
		z += "0"
	}
	return text[:i] + z + text[i:]
}

// reuse returns an already declared variable of the given type whose text satisfies ok.
func (g *TG) reuse(label, typ string, ok func(text string) bool) (DeclaredVar, bool) {
	if !g.pct(label+".reuse", g.K.PReuse) {
		return DeclaredVar{}, false
	}
	var cands []DeclaredVar
	for _, d := range g.Declared {
		if d.Type == typ && ok(d.Text) {
			cands = append(cands, d)
		}
	}
	if len(cands) == 0 {
		return DeclaredVar{}, false
	}
	return cands[g.n(label+".reuse.i", 0, len(cands)-1)], true
}

// MonValue chooses a monetary value of the asset together with its spelling: either an
// already declared monetary variable of that asset (its value is then the amount), or a
// fresh amount drawn by draw() and spelled by MonExpr.
func (g *TG) MonValue(label, asset string, allowNegative bool, draw func() *big.Int) (*Expr, *big.Int) {
	if d, ok := g.reuse(label, "monetary", func(t string) bool {
		return len(t) > len(asset)+1 && t[:len(asset)+1] == asset+" " && (allowNegative || t[len(asset)+1] != '-')
	}); ok {
		n, _ := new(big.Int).SetString(d.Text[len(asset)+1:], 10)
		return Var(d.Name), n
	}
	n := draw()
	return g.MonExpr(asset, n, 0), n
}

// ---- typed expressions: the value is chosen by the caller, the spelling is drawn here

func fitsLiteral(n *big.Int) bool { return n.IsInt64() }

func (g *TG) NumExpr(n *big.Int, depth int) *Expr {
	if depth < 2 && g.pct("num.infix", g.K.PInfix) {
		// n = a + b or a - b
		b := big.NewInt(int64(g.n("num.b", 0, 5)))
		if g.pct("num.minus", 50) {
			return Infix("-", g.NumExpr(new(big.Int).Add(n, b), depth+1), g.numAtom(b))
		}
		return Infix("+", g.NumExpr(new(big.Int).Sub(n, b), depth+1), g.numAtom(b))
	}
	return g.numAtom(n)
}

func (g *TG) numAtom(n *big.Int) *Expr {
	if !fitsLiteral(n) || g.pct("num.var", g.K.PVarRepr) {
		return Var(g.declare("number", n.String()))
	}
	return Num(n)
}

func (g *TG) AssetExpr(a string) *Expr {
	if d, ok := g.reuse("asset", "asset", func(t string) bool { return t == a }); ok {
		return Var(d.Name)
	}
	if g.pct("asset.var", g.K.PVarRepr/2) {
		return Var(g.declare("asset", a))
	}
	return Asset(a)
}

var weirdAccounts = []string{"", "<kept>", " ", "a b", "@a", "a::b", "a:", ":a", "é", "world ", "<kept> "}

func (g *TG) AcctExpr(a string) *Expr {
	if g.pct("acct.weird", g.K.PWeirdAccount) {
		return Var(g.declare("account", pickS(g, "acct.weird.v", weirdAccounts)))
	}
	if d, ok := g.reuse("acct", "account", func(t string) bool { return t == a }); ok {
		return Var(d.Name)
	}
	if g.pct("acct.var", g.K.PVarRepr) {
		return Var(g.declare("account", a))
	}
	return Acct(a)
}

func (g *TG) StrExpr(s string) *Expr {
	// quotes, backslashes and line breaks cannot be written in a string literal
	if strings.ContainsAny(s, "\"\\\n\r") || g.pct("str.var", g.K.PVarRepr) {
		return Var(g.declare("string", s))
	}
	return Str(s)
}

func (g *TG) MonExpr(asset string, n *big.Int, depth int) *Expr {
	if depth < 2 && g.pct("mon.infix", g.K.PInfix) {
		b := big.NewInt(int64(g.n("mon.b", 0, 5)))
		if g.pct("mon.minus", 50) {
			return Infix("-", g.MonExpr(asset, new(big.Int).Add(n, b), depth+1), g.monAtom(asset, b))
		}
		return Infix("+", g.MonExpr(asset, new(big.Int).Sub(n, b), depth+1), g.monAtom(asset, b))
	}
	return g.monAtom(asset, n)
}

func (g *TG) monAtom(asset string, n *big.Int) *Expr {
	if g.pct("mon.var", g.K.PVarRepr) {
		return Var(g.declare("monetary", asset+" "+n.String()))
	}
	return Mon(g.AssetExpr(asset), g.NumExpr(n, 1))
}

// Cap draws a cap / overdraft bound: mostly like amounts, sometimes zero or negative.
func (g *TG) CapValue(label string) *big.Int {
	if g.pct(label+".neg", g.K.PNegCap) {
		return big.NewInt(int64(-g.n(label+".negv", 0, 5)))
	}
	return g.Amount(label)
}

// ---- allotments

// Portions draws k portions with sum one and their spellings. The last one may be `remaining`.
func (g *TG) Portions(k int) []Allot {
	ws := make([]int64, k)
	var tot int64
	for i := range ws {
		ws[i] = int64(g.n("allot.w", 0, 6))
		tot += ws[i]
	}
	if tot == 0 {
		ws[g.n("allot.fix", 0, k-1)] = 1
		tot = 1
	}
	out := make([]Allot, k)
	if k >= 2 && g.pct("allot.overunity", g.K.POverUnity) {
		// portions above one in total, plus a `remaining` clause somewhere
		at := g.n("allot.overunity.at", 0, k-1)
		for i := range out {
			if i == at {
				out[i] = Allot{Kind: ARemaining}
				continue
			}
			w := int64(g.n("allot.overunity.w", 1, 3))
			out[i] = g.portionSpelling(big.NewRat(w, 3), w, 3)
		}
		return out
	}
	if k >= 2 && g.pct("allot.tiny", 3) {
		// one portion whose lowest-terms denominator sits at a word boundary, the rest to
		// `remaining`
		tiny := pickS(g, "allot.tiny.text", []string{"1/18446744073709551616", "3/36893488147419103232", "1/55340232221128654848",
			"1/9223372036854775808", "1/10000000000000000000", "5/18446744073709551616", "18446744073709551615/18446744073709551616"})
		for i := range out {
			switch {
			case i == 0 && g.pct("allot.tiny.var", 40):
				out[i] = Allot{Kind: AVar, Text: g.declare("portion", tiny)}
			case i == 0:
				out[i] = Allot{Kind: ALit, Text: tiny}
			case i == k-1:
				out[i] = Allot{Kind: ARemaining}
			default:
				out[i] = Allot{Kind: ALit, Text: "0/1"}
			}
		}
		return out
	}
	useRemaining := g.pct("allot.remaining", 35)
	for i := range ws {
		r := big.NewRat(ws[i], tot)
		if i == k-1 && useRemaining {
			out[i] = Allot{Kind: ARemaining}
			continue
		}
		out[i] = g.portionSpelling(r, ws[i], tot)
	}
	return out
}

func (g *TG) portionSpelling(r *big.Rat, w, tot int64) Allot {
	c := g.n("allot.spell", 0, 99)
	switch {
	case c < g.K.PVarRepr:
		text := fmt.Sprintf("%d/%d", w, tot)
		// the same portion variable may serve several clauses (of one allotment or of several)
		if d, ok := g.reuse("allot.var", "portion", func(t string) bool { return t == text }); ok {
			return Allot{Kind: AVar, Text: d.Name}
		}
		return Allot{Kind: AVar, Text: g.declare("portion", text)}
	case c < g.K.PVarRepr+25:
		if pt, ok := PercentText(r); ok {
			if g.pct("allot.longpercent", 15) {
				// trailing zeros up to 14-22 decimals: the same number
				pt = pt[:len(pt)-1]
				dec := 0
				if i := strings.IndexByte(pt, '.'); i >= 0 {
					dec = len(pt) - i - 1
				} else {
					pt += "."
				}
				for want := g.n("allot.longpercent.n", 14, 22); dec < want; dec++ {
					pt += "0"
				}
				pt += "%"
			}
			return Allot{Kind: ALit, Text: pt}
		}
		fallthrough
	case c < g.K.PVarRepr+45:
		return Allot{Kind: ALit, Text: fmt.Sprintf("%s/%s", r.Num(), r.Denom())}
	case c < g.K.PVarRepr+55:
		return Allot{Kind: ALit, Text: fmt.Sprintf("%d / %d", w, tot)}
	default:
		return Allot{Kind: ALit, Text: fmt.Sprintf("%d/%d", w, tot)}
	}
}

// PercentText spells r as a percentage when that is exact with at most 6 decimals.
func PercentText(r *big.Rat) (string, bool) {
	for dec := 0; dec <= 6; dec++ {
		scale := new(big.Int).Exp(big.NewInt(10), big.NewInt(int64(2+dec)), nil)
		v := new(big.Rat).Mul(r, new(big.Rat).SetInt(scale))
		if v.IsInt() {
			s := v.Num().String()
			if dec == 0 {
				return s + "%", true
			}
			for len(s) <= dec {
				s = "0" + s
			}
			return s[:len(s)-dec] + "." + s[len(s)-dec:] + "%", true
		}
	}
	return "", false
}

// ---- sources and destinations

// Src draws a source tree for the asset. all = directly under send-all (no enclosing cap).
func (g *TG) Src(asset string, depth int, all bool) *Src {
	weights := []struct {
		k string
		w int
	}{
		{"acct", 38}, {"bounded", g.K.PBounded}, {"inorder", 22}, {"capped", 16},
	}
	if !all || g.K.ShapeFaults {
		weights = append(weights, struct {
			k string
			w int
		}{"unbounded", g.K.PUnbounded}, struct {
			k string
			w int
		}{"world", g.K.PWorld}, struct {
			k string
			w int
		}{"allot", g.K.PAllotSrc})
	}
	if depth >= g.K.MaxDepth {
		weights = weights[:2]
		if !all || g.K.ShapeFaults {
			weights = append(weights, struct {
				k string
				w int
			}{"world", g.K.PWorld})
		}
	}
	tot := 0
	for _, w := range weights {
		tot += w.w
	}
	r := g.n("src.kind", 0, tot-1)
	kind := ""
	for _, w := range weights {
		if r < w.w {
			kind = w.k
			break
		}
		r -= w.w
	}
	switch kind {
	case "acct":
		return &Src{Kind: SAcct, Addr: g.AcctExpr(pickS(g, "src.acct", g.K.Accounts))}
	case "world":
		return &Src{Kind: SAcct, Addr: g.AcctExpr("world")}
	case "bounded":
		bv, _ := g.MonValue("src.bound", asset, true, func() *big.Int { return g.CapValue("src.bound") })
		acct := pickS(g, "src.acct", g.K.Accounts)
		if (!all || g.K.ShapeFaults) && g.pct("src.bounded.world", g.K.PWorld/2) {
			acct = "world" // legal: @world with a (pointless) overdraft bound
		}
		return &Src{Kind: SOver, Addr: g.AcctExpr(acct), Bound: bv}
	case "unbounded":
		return &Src{Kind: SOver, Addr: g.AcctExpr(pickS(g, "src.acct", g.K.Accounts))}
	case "inorder":
		n := g.n("src.width", 0, g.K.MaxWidth)
		s := &Src{Kind: SInorder}
		for i := 0; i < n; i++ {
			s.Subs = append(s.Subs, g.Src(asset, depth+1, all))
		}
		return s
	case "capped":
		for _, bv := range g.BalVars {
			if bv.Asset == asset && g.pct("src.cap.balvar", 30) {
				return &Src{Kind: SCapped, Cap: Var(bv.Name), From: g.Src(asset, depth+1, false)}
			}
		}
		cv, _ := g.MonValue("src.cap", asset, true, func() *big.Int { return g.CapValue("src.cap") })
		return &Src{Kind: SCapped, Cap: cv, From: g.Src(asset, depth+1, false)}
	case "allot":
		n := g.n("src.allotw", 1, g.K.MaxWidth)
		ps := g.Portions(n)
		s := &Src{Kind: SAllot}
		for i := 0; i < n; i++ {
			s.Items = append(s.Items, SrcItem{Portion: ps[i], From: g.Src(asset, depth+1, false)})
		}
		return s
	}
	panic("unreachable src kind")
}

func (g *TG) destAccount() string {
	all := append(append([]string{}, g.K.Accounts...), g.K.DestOnly...)
	return pickS(g, "dst.acct", all)
}

func (g *TG) KOD(asset string, depth int) KOD {
	if g.pct("dst.kept", g.K.PKept) {
		return KOD{Kept: true}
	}
	return KOD{Dst: g.Dst(asset, depth)}
}

func (g *TG) Dst(asset string, depth int) *Dst {
	c := g.n("dst.kind", 0, 99)
	if depth >= g.K.MaxDepth {
		c = 0
	}
	switch {
	case c < 50:
		return &Dst{Kind: DAcct, Addr: g.AcctExpr(g.destAccount())}
	case c < 80:
		n := g.n("dst.width", 0, g.K.MaxWidth)
		d := &Dst{Kind: DInorder}
		for i := 0; i < n; i++ {
			cv, _ := g.MonValue("dst.cap", asset, true, func() *big.Int { return g.CapValue("dst.cap") })
			d.Clauses = append(d.Clauses, DstClause{Cap: cv, To: g.KOD(asset, depth+1)})
		}
		r := g.KOD(asset, depth+1)
		d.Remaining = &r
		return d
	default:
		n := g.n("dst.allotw", 1, g.K.MaxWidth)
		ps := g.Portions(n)
		d := &Dst{Kind: DAllot}
		for i := 0; i < n; i++ {
			d.Items = append(d.Items, DstItem{Portion: ps[i], To: g.KOD(asset, depth+1)})
		}
		return d
	}
}

// ---- statements

func (g *TG) asset() string {
	if g.K.SameAsset {
		return g.K.Assets[0]
	}
	if g.K.EvenAssets {
		return pickS(g, "asset.even", g.K.Assets)
	}
	// the first assets are favoured so that statements interact
	c := g.n("asset", 0, 9)
	if c < 6 || len(g.K.Assets) == 1 {
		return g.K.Assets[0]
	}
	return g.K.Assets[1+g.n("asset.other", 0, len(g.K.Assets)-2)]
}

func (g *TG) Stmt() *Stmt {
	c := g.n("stmt.kind", 0, 99)
	asset := g.asset()
	switch {
	case c < g.K.PSave:
		st := &Stmt{Kind: StSave}
		if g.pct("save.all", 25) {
			st.All = true
			st.Sent = g.AssetExpr(asset)
		} else {
			st.Sent, _ = g.MonValue("save.amt", asset, false, func() *big.Int { return g.Amount("save.amt") })
		}
		saveAcct := pickS(g, "save.acct", g.K.Accounts)
		if g.pct("save.world", g.K.PWorldOddPlaces) {
			saveAcct = "world"
		}
		st.SaveFrom = g.AcctExpr(saveAcct)
		return st
	case c < g.K.PSave+g.K.PCall:
		return g.CallStmt()
	case c < g.K.PSave+g.K.PCall+g.K.PSendAll:
		return &Stmt{Kind: StSend, All: true, Sent: g.AssetExpr(asset), Src: g.Src(asset, 0, true), Dst: g.Dst(asset, 0)}
	default:
		n := g.Amount("send.amt")
		var sentExpr *Expr
		if len(g.BalVars) > 0 && g.pct("send.balvar", 35) {
			bv := g.BalVars[g.n("send.balvar.i", 0, len(g.BalVars)-1)]
			asset, n, sentExpr = bv.Asset, bv.Val, Var(bv.Name)
		}
		g.note(n)
		src := g.Src(asset, 0, false)
		if g.pct("send.fallback", g.K.PWorldFallback) {
			src = &Src{Kind: SInorder, Subs: []*Src{src, {Kind: SAcct, Addr: Acct("world")}}}
		}
		if sentExpr == nil {
			sentExpr, n = g.MonValue("send.amt", asset, false, func() *big.Int { return n })
			g.note(n)
		}
		return &Stmt{Kind: StSend, Sent: sentExpr, Src: src, Dst: g.Dst(asset, 0)}
	}
}

var metaKeys = []string{"k", "k2", "prio"}

func (g *TG) anyValueExpr() *Expr {
	switch g.n("any.kind", 0, 5) {
	case 0:
		return g.AcctExpr(g.destAccount())
	case 1:
		return g.AssetExpr(pickS(g, "any.asset", g.K.Assets))
	case 2:
		return g.StrExpr(pickS(g, "any.str", []string{"", "hello", "a b", "é", "say \"hi\"", "c:\\temp\\new", "line\nbreak", "tab\there", "🙂"}))
	case 3:
		return g.NumExpr(g.Amount("any.num"), 0)
	case 4:
		return g.MonExpr(pickS(g, "any.masset", g.K.Assets), g.Amount("any.mon"), 0)
	default:
		pt, _ := PercentText(big.NewRat(int64(g.n("any.pn", 0, 4)), 4))
		return PortionLit(pt)
	}
}

func (g *TG) CallStmt() *Stmt {
	// a value read through meta() written back to the entry it came from (the result then
	// repeats what the store already holds - still a write the script made)
	if g.pct("call.echo", 20) {
		var mv []DeclaredVar
		for _, d := range g.Declared {
			if d.MetaKey != "" {
				mv = append(mv, d)
			}
		}
		if len(mv) > 0 {
			d := mv[g.n("call.echo.i", 0, len(mv)-1)]
			return &Stmt{Kind: StCall, Call: &Call{Fn: "set_account_meta", Args: []*Expr{Acct(d.MetaAcct), Str(d.MetaKey), Var(d.Name)}}}
		}
	}
	if g.pct("call.tx", 50) {
		return &Stmt{Kind: StCall, Call: &Call{Fn: "set_tx_meta", Args: []*Expr{g.StrExpr(pickS(g, "call.key", metaKeys)), g.anyValueExpr()}}}
	}
	return &Stmt{Kind: StCall, Call: &Call{Fn: "set_account_meta", Args: []*Expr{
		g.AcctExpr(g.destAccount()), g.StrExpr(pickS(g, "call.key", metaKeys)), g.anyValueExpr()}}}
}

// balanceOrigin adds a variable initialised by balance() or overdraft().
func (g *TG) balanceOrigin() {
	acct := pickS(g, "bo.acct", g.K.Accounts)
	if g.pct("bo.world", g.K.PWorldOddPlaces) {
		acct = "world"
	}
	asset := g.asset()
	fn := "balance"
	if g.K.OverdraftFlag && g.pct("bo.od", 40) {
		fn = "overdraft"
		g.UsesOverdraftFn = true
	}
	cur := new(big.Int)
	if v, ok := g.Bal[acct][asset]; ok && acct != "world" {
		cur.Set(v)
	}
	if g.K.SafeBalanceOrigins && fn == "balance" && cur.Sign() < 0 {
		if !g.K.OverdraftFlag {
			return
		}
		fn = "overdraft"
		g.UsesOverdraftFn = true
	}
	val := new(big.Int).Set(cur)
	if fn == "overdraft" {
		val.Neg(val)
		if val.Sign() < 0 {
			val.SetInt64(0)
		}
	}
	name := g.newVarName()
	// the arguments are evaluated before the variable exists: declare them first
	args := []*Expr{g.AcctExpr(acct), g.AssetExpr(asset)}
	g.Decls = append(g.Decls, VarDecl{Type: "monetary", Name: name, Origin: &Call{Fn: fn, Args: args}})
	g.BalVars = append(g.BalVars, BalVar{Name: name, Asset: asset, Val: val})
}

// Case draws a complete execution case.
func (g *TG) Case() *ExecCase {
	g.Sheet()
	for i := 0; i < 3; i++ {
		if g.pct("balorigin", g.K.PBalanceOrigin) {
			g.balanceOrigin()
		}
	}
	n := g.n("nstmts", g.K.MinStmts, g.K.MaxStmts)
	s := &Script{}
	for i := 0; i < n; i++ {
		s.Stmts = append(s.Stmts, g.Stmt())
	}
	// sometimes an earlier statement comes again, word for word, later in the script (two
	// distant parts of a script that agree exactly is not something independent draws produce)
	if len(s.Stmts) > 0 && g.pct("repeat.stmt", 6) {
		tmp := (&Script{Stmts: []*Stmt{s.Stmts[g.n("repeat.which", 0, len(s.Stmts)-1)]}}).Clone()
		at := g.n("repeat.at", 1, len(s.Stmts))
		s.Stmts = append(s.Stmts[:at], append([]*Stmt{tmp.Stmts[0]}, s.Stmts[at:]...)...)
	}
	s.Vars = g.Decls
	ec := &ExecCase{Script: s, Vars: g.Vars, Meta: g.Meta, Balances: map[string]map[string]string{}}
	for a, m := range g.Bal {
		ec.Balances[a] = map[string]string{}
		for k, v := range m {
			ec.Balances[a][k] = v.String()
		}
	}
	if g.K.OverdraftFlag {
		ec.Flags = []string{"experimental-overdraft-function"}
	}
	if len(ec.Vars) > 0 && g.pct("warm", g.K.PWarm) {
		ec.Warm = g.warmVars()
	}
	return ec
}

// warmVars: another well-typed assignment of the caller-supplied variables (most values
// changed), for the warm-up execution.
func (g *TG) warmVars() map[string]string {
	out := map[string]string{}
	for _, d := range g.Decls {
		text, ok := g.Vars[d.Name]
		if !ok {
			continue
		}
		if !g.pct("warm.change", 75) {
			out[d.Name] = text
			continue
		}
		switch d.Type {
		case "number":
			out[d.Name] = big.NewInt(int64(g.n("warm.num", 0, 40))).String()
		case "monetary":
			asset := text
			for i := 0; i < len(text); i++ {
				if text[i] == ' ' {
					asset = text[:i]
					break
				}
			}
			if g.pct("warm.mon.asset", 15) {
				asset = pickS(g, "warm.asset", g.K.Assets)
			}
			out[d.Name] = asset + " " + big.NewInt(int64(g.n("warm.mon", 0, 40))).String()
		case "portion":
			out[d.Name] = pickS(g, "warm.portion", []string{"1/2", "1/3", "0/1", "1/1", "25%", "3/7", "12.5%"})
		case "account":
			out[d.Name] = pickS(g, "warm.acct", append(append([]string{}, g.K.Accounts...), "world", "other"))
		case "asset":
			out[d.Name] = pickS(g, "warm.asset2", g.K.Assets)
		default:
			out[d.Name] = text + "~"
		}
	}
	return out
}

// SortedKeys helps deterministic iteration.
func SortedKeys[V any](m map[string]V) []string {
	out := make([]string, 0, len(m))
	for k := range m {
		out = append(out, k)
	}
	sort.Strings(out)
	return out
}
