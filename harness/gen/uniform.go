package gen

import (
	"math/bits"

	"pgregory.net/rapid"
)

// rapid's integer generators are deliberately biased towards small magnitudes (the bit
// length is drawn geometrically), which turns "x% of the time" choices into "almost
// always the first alternative". Uniform builds an (almost) uniform integer in [0, n)
// from fair coin flips, which rapid does provide; the value still shrinks towards 0.
var bitGens [40]*rapid.Generator[[]bool]

func init() {
	for i := range bitGens {
		bitGens[i] = rapid.SliceOfN(rapid.Bool(), i, i)
	}
}

func Uniform(t *rapid.T, label string, n int) int {
	if n <= 1 {
		return 0
	}
	nb := bits.Len(uint(n-1)) + 3
	bs := bitGens[nb].Draw(t, label)
	v := 0
	for _, b := range bs {
		v <<= 1
		if b {
			v |= 1
		}
	}
	return v % n
}

// Chance is true with probability pct/100.
func Chance(t *rapid.T, label string, pct int) bool {
	if pct <= 0 {
		return false
	}
	if pct >= 100 {
		return true
	}
	return Uniform(t, label, 100) < pct
}

// Pick chooses uniformly from a slice.
func Pick[T any](t *rapid.T, label string, xs []T) T {
	return xs[Uniform(t, label, len(xs))]
}
