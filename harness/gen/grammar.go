package gen

import (
	"strings"

	"pgregory.net/rapid"
)

// GG is the grammar-complete generator: every alternative of every parser rule of
// Numscript.g4, any valueExpr wherever the grammar allows one (so also ill-typed
// scripts), boundary-biased literal pools.
type GG struct {
	T        *rapid.T
	MaxDepth int
	MaxWidth int
	// NoHugeNumbers keeps NUMBER tokens within int64 (out-of-range literals are a known finding)
	NoHugeNumbers bool
	// NoZeroDenominator excludes `n/0` portion literals
	NoZeroDenominator bool
	// ASCIIOnly avoids non-ASCII characters in strings
	ASCIIOnly bool
}

var (
	ggNumbers = []string{"0", "1", "-1", "42", "10", "007", "08", "0019", "-09", "010", "-0", "2147483648", "9223372036854775807", "-9223372036854775808", "100"}
	ggHuge    = []string{"9223372036854775808", "18446744073709551616", "-9223372036854775809", "99999999999999999999999999999999"}
	ggStrings = []string{"", "hello", "a b", `a\"b`, `\"`, `a\"`, `\"a\"`, " lead", "trail ", "k", "x y z", "//nc", "/* c */", "it's", "1/2", "$v", "@a"}
	ggUnicode = []string{"é", "日本", "🙂", "añb", "ünï", "→x", "a🙂b", "a\u0085b", "l\u2028s", "p\u2029", "\u00a0", "\ufeffx", "caf\ufffd", "\ufffd"}
	ggAssets  = []string{"USD", "EUR/2", "COIN", "A", "USD/", "BTC/8", "1INCH", "X9", "U/S/D"}
	ggAccts   = []string{"a", "b", "world", "users:001", "a-b_c", "A:B:c", "0", "dest", "x_1:y-2"}
	ggVars    = []string{"x", "acc", "a_b", "_u", "v1", "amount", "p", "x"}
	ggRatios  = []string{"1/2", "0/1", "1 / 3", "2 /3", "1/ 4", "3/3", "10/100", "01/02", "1/010"}
	ggPercent = []string{"50%", "12.5%", "0%", "100%", "007%", "0.10%", "33.333%", "1.0%"}
	ggFns     = []string{"set_tx_meta", "set_account_meta", "meta", "balance", "overdraft", "foo", "a_b"}
	ggTypes   = []string{"monetary", "account", "portion", "asset", "number", "string", "int", "foo_bar", "any"}
)

func (g *GG) pick(label string, xs []string) string { return Pick(g.T, label, xs) }

func (g *GG) Portion() string {
	if Chance(g.T, "portion.pct", 45) {
		return g.pick("portion.p", ggPercent)
	}
	if !g.NoZeroDenominator && Chance(g.T, "portion.zero", 3) {
		return "1/0"
	}
	return g.pick("portion.r", ggRatios)
}

func (g *GG) StringText() string {
	if !g.ASCIIOnly && Chance(g.T, "str.uni", 35) {
		return g.pick("str.u", ggUnicode)
	}
	return g.pick("str.a", ggStrings)
}

func (g *GG) Number() string {
	if !g.NoHugeNumbers && Chance(g.T, "num.huge", 8) {
		return g.pick("num.h", ggHuge)
	}
	return g.pick("num", ggNumbers)
}

// Atom draws a non-infix value expression.
func (g *GG) Atom(depth int) *Expr {
	n := 7
	if depth >= g.MaxDepth {
		n = 6 // no nested monetary
	}
	switch Uniform(g.T, "atom", n) {
	case 0:
		return Var(g.pick("var", ggVars))
	case 1:
		return Asset(g.pick("asset", ggAssets))
	case 2:
		return Str(g.StringText())
	case 3:
		return Acct(g.pick("acct", ggAccts))
	case 4:
		return &Expr{Kind: ENum, Text: g.Number()}
	case 5:
		return PortionLit(g.Portion())
	default:
		return Mon(g.Expr(depth+1), g.Expr(depth+1))
	}
}

// Expr draws any value expression; infix chains are left-nested as the grammar dictates.
func (g *GG) Expr(depth int) *Expr {
	e := g.Atom(depth)
	for depth < g.MaxDepth && Chance(g.T, "infix", 18) {
		e = Infix(g.pick("op", []string{"+", "-"}), e, g.Atom(depth+1))
	}
	return e
}

func (g *GG) Allot() Allot {
	switch Uniform(g.T, "allot", 3) {
	case 0:
		return Allot{Kind: ALit, Text: g.Portion()}
	case 1:
		return Allot{Kind: AVar, Text: g.pick("allot.var", ggVars)}
	default:
		return Allot{Kind: ARemaining}
	}
}

func (g *GG) Src(depth int) *Src {
	n := 6
	if depth >= g.MaxDepth {
		n = 3
	}
	switch Uniform(g.T, "src", n) {
	case 0:
		return &Src{Kind: SAcct, Addr: g.Expr(depth + 1)}
	case 1:
		return &Src{Kind: SOver, Addr: g.Expr(depth + 1)}
	case 2:
		return &Src{Kind: SOver, Addr: g.Expr(depth + 1), Bound: g.Expr(depth + 1)}
	case 3:
		s := &Src{Kind: SInorder}
		for i, n := 0, Uniform(g.T, "src.n", g.MaxWidth+1); i < n; i++ {
			s.Subs = append(s.Subs, g.Src(depth+1))
		}
		return s
	case 4:
		s := &Src{Kind: SAllot}
		for i, n := 0, 1+Uniform(g.T, "src.an", g.MaxWidth); i < n; i++ {
			s.Items = append(s.Items, SrcItem{Portion: g.Allot(), From: g.Src(depth + 1)})
		}
		return s
	default:
		return &Src{Kind: SCapped, Cap: g.Expr(depth + 1), From: g.Src(depth + 1)}
	}
}

func (g *GG) KOD(depth int) KOD {
	if Chance(g.T, "kept", 25) {
		return KOD{Kept: true}
	}
	return KOD{Dst: g.Dst(depth)}
}

func (g *GG) Dst(depth int) *Dst {
	n := 3
	if depth >= g.MaxDepth {
		n = 1
	}
	switch Uniform(g.T, "dst", n) {
	case 0:
		return &Dst{Kind: DAcct, Addr: g.Expr(depth + 1)}
	case 1:
		d := &Dst{Kind: DInorder}
		for i, n := 0, Uniform(g.T, "dst.n", g.MaxWidth+1); i < n; i++ {
			d.Clauses = append(d.Clauses, DstClause{Cap: g.Expr(depth + 1), To: g.KOD(depth + 1)})
		}
		k := g.KOD(depth + 1)
		d.Remaining = &k
		return d
	default:
		d := &Dst{Kind: DAllot}
		for i, n := 0, 1+Uniform(g.T, "dst.an", g.MaxWidth); i < n; i++ {
			d.Items = append(d.Items, DstItem{Portion: g.Allot(), To: g.KOD(depth + 1)})
		}
		return d
	}
}

func (g *GG) Call() *Call {
	c := &Call{Fn: g.pick("fn", ggFns)}
	for i, n := 0, Uniform(g.T, "call.n", 5); i < n; i++ {
		c.Args = append(c.Args, g.Expr(1))
	}
	return c
}

func (g *GG) Stmt() *Stmt {
	switch Uniform(g.T, "stmt", 8) {
	case 0, 1, 2, 3:
		st := &Stmt{Kind: StSend, Src: g.Src(0), Dst: g.Dst(0)}
		if Chance(g.T, "send.all", 30) {
			st.All = true
		}
		st.Sent = g.Expr(1)
		return st
	case 4, 5:
		st := &Stmt{Kind: StSave, SaveFrom: g.Expr(1)}
		if Chance(g.T, "save.all", 40) {
			st.All = true
		}
		st.Sent = g.Expr(1)
		return st
	default:
		return &Stmt{Kind: StCall, Call: g.Call()}
	}
}

func (g *GG) Script() *Script {
	s := &Script{}
	if Chance(g.T, "hasvars", 60) {
		s.HasVars = true
		for i, n := 0, Uniform(g.T, "nvars", 5); i < n; i++ {
			d := VarDecl{Type: g.pick("type", ggTypes), Name: g.pick("vname", ggVars)}
			if Chance(g.T, "origin", 35) {
				d.Origin = g.Call()
			}
			s.Vars = append(s.Vars, d)
		}
	}
	for i, n := 0, Uniform(g.T, "nstmts", 5); i < n; i++ {
		s.Stmts = append(s.Stmts, g.Stmt())
	}
	return s
}

// ---- layouts

var sepPool = []string{" ", " ", " ", "", "", "  ", "\t", "\n", "\n", "\r\n", "\r", " \r ", "\r\r\n", "// ended by a lone CR\r", "/* a\rb */", "\n\n  ", " \t ", "// line comment\n", "//\n", "// é 日本 🙂 \"q\" */ /*\n",
	"/* block */", "/**/", " /* multi\nline */ ", "/* é🙂 */", "/* a /* nested */ b */", "/* // not a line comment */", "\n// c1\n// c2\n", " /* x */ /* y */ "}

// RandomLayout draws a list of separators; ListLayout replaces those that would change
// the token stream.
func RandomLayout(t *rapid.T) *ListLayout {
	n := 3 + Uniform(t, "layout.n", 14)
	l := &ListLayout{}
	for i := 0; i < n; i++ {
		l.Seps = append(l.Seps, Pick(t, "layout.sep", sepPool))
	}
	return l
}

// HasNonASCII reports whether s contains a non-ASCII character.
func HasNonASCII(s string) bool {
	for i := 0; i < len(s); i++ {
		if s[i] >= 0x80 {
			return true
		}
	}
	return false
}

var _ = strings.Repeat
