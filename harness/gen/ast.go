// Package gen holds the harness's own model of a Numscript script (mirroring the
// grammar, not the implementation), its printers and its generators.
package gen

import (
	"encoding/json"
	"math/big"
	"strings"
)

// Span is a source range in (zero-based line, column in code points); End is exclusive.
type Span struct{ SL, SC, EL, EC int }

// Expr kinds
const (
	EVar     = "var"     // Text = name without '$'
	EAsset   = "asset"   // Text = asset
	EStr     = "str"     // Text = raw characters between the quotes
	EAcct    = "acct"    // Text = name without '@'
	ENum     = "num"     // Text = decimal token text (optional leading '-')
	EMon     = "mon"     // L = asset expr, R = amount expr
	EPortion = "portion" // Text = literal token text ("1/3", "1 / 3", "12.5%")
	EInfix   = "infix"   // Op, L, R
)

type Expr struct {
	Kind string `json:"k"`
	Text string `json:"t,omitempty"`
	Op   string `json:"op,omitempty"`
	L    *Expr  `json:"l,omitempty"`
	R    *Expr  `json:"r,omitempty"`
	Span *Span  `json:"-"`
}

// Allotment portion position
const (
	ALit       = "lit"
	AVar       = "var"
	ARemaining = "remaining"
)

type Allot struct {
	Kind string `json:"k"`
	Text string `json:"t,omitempty"` // literal text or variable name
	Span *Span  `json:"-"`
}

// Source kinds
const (
	SAcct    = "acct"
	SOver    = "od" // overdraft: Bound == nil means unbounded
	SInorder = "inorder"
	SAllot   = "allot"
	SCapped  = "capped"
)

type SrcItem struct {
	Portion Allot `json:"p"`
	From    *Src  `json:"from"`
	Span    *Span `json:"-"`
}

type Src struct {
	Kind  string    `json:"k"`
	Addr  *Expr     `json:"addr,omitempty"`
	Bound *Expr     `json:"bound,omitempty"`
	Subs  []*Src    `json:"subs,omitempty"`
	Items []SrcItem `json:"items,omitempty"`
	Cap   *Expr     `json:"cap,omitempty"`
	From  *Src      `json:"from,omitempty"`
	Span  *Span     `json:"-"`
}

// Destination kinds
const (
	DAcct    = "acct"
	DInorder = "inorder"
	DAllot   = "allot"
)

type KOD struct {
	Kept bool  `json:"kept,omitempty"`
	Dst  *Dst  `json:"dst,omitempty"`
	Span *Span `json:"-"` // span of the `kept` keyword when Kept
}

type DstClause struct {
	Cap  *Expr `json:"cap"`
	To   KOD   `json:"to"`
	Span *Span `json:"-"`
}

type DstItem struct {
	Portion Allot `json:"p"`
	To      KOD   `json:"to"`
	Span    *Span `json:"-"`
}

type Dst struct {
	Kind      string      `json:"k"`
	Addr      *Expr       `json:"addr,omitempty"`
	Clauses   []DstClause `json:"clauses,omitempty"`
	Remaining *KOD        `json:"remaining,omitempty"`
	Items     []DstItem   `json:"items,omitempty"`
	Span      *Span       `json:"-"`
}

// Statement kinds
const (
	StSend = "send"
	StSave = "save"
	StCall = "call"
)

type Call struct {
	Fn       string  `json:"fn"`
	Args     []*Expr `json:"args,omitempty"`
	Span     *Span   `json:"-"`
	NameSpan *Span   `json:"-"`
}

type Stmt struct {
	Kind string `json:"k"`
	// send / save: All => `[Sent *]` with Sent the asset expression; otherwise Sent is the
	// monetary expression
	All      bool  `json:"all,omitempty"`
	Sent     *Expr `json:"sent,omitempty"`
	Src      *Src  `json:"src,omitempty"`
	Dst      *Dst  `json:"dst,omitempty"`
	SaveFrom *Expr `json:"savefrom,omitempty"`
	Call     *Call `json:"call,omitempty"`
	Span     *Span `json:"-"`
	SentSpan *Span `json:"-"`
}

type VarDecl struct {
	Type     string `json:"type"`
	Name     string `json:"name"`
	Origin   *Call  `json:"origin,omitempty"`
	Span     *Span  `json:"-"`
	TypeSpan *Span  `json:"-"`
	NameSpan *Span  `json:"-"`
}

type Script struct {
	HasVars bool      `json:"hasvars,omitempty"` // a `vars { }` block is printed even when empty
	Vars    []VarDecl `json:"vars,omitempty"`
	Stmts   []*Stmt   `json:"stmts,omitempty"`
}

// ---- constructors

func Var(name string) *Expr     { return &Expr{Kind: EVar, Text: name} }
func Asset(a string) *Expr      { return &Expr{Kind: EAsset, Text: a} }
func Str(s string) *Expr        { return &Expr{Kind: EStr, Text: s} }
func Acct(a string) *Expr       { return &Expr{Kind: EAcct, Text: a} }
func Num(n *big.Int) *Expr      { return &Expr{Kind: ENum, Text: n.String()} }
func NumI(n int64) *Expr        { return &Expr{Kind: ENum, Text: big.NewInt(n).String()} }
func Mon(a, n *Expr) *Expr      { return &Expr{Kind: EMon, L: a, R: n} }
func PortionLit(t string) *Expr { return &Expr{Kind: EPortion, Text: t} }
func Infix(op string, l, r *Expr) *Expr {
	return &Expr{Kind: EInfix, Op: op, L: l, R: r}
}

// Clone makes a deep copy through JSON (spans are dropped).
func (s *Script) Clone() *Script {
	b, err := json.Marshal(s)
	if err != nil {
		panic(err)
	}
	var out Script
	if err := json.Unmarshal(b, &out); err != nil {
		panic(err)
	}
	return &out
}

func (s *Script) JSON() string {
	b, _ := json.Marshal(s)
	return string(b)
}

// Prefix returns a script with the same variable block and the first n statements.
func (s *Script) Prefix(n int) *Script {
	c := s.Clone()
	c.Stmts = c.Stmts[:n]
	return c
}

// Slice returns a script with the same variable block and statements [i,j).
func (s *Script) Slice(i, j int) *Script {
	c := s.Clone()
	c.Stmts = c.Stmts[i:j]
	return c
}

// ---- traversal helpers

// WalkExprs calls f on every expression of the script (pre-order), including nested ones.
func (s *Script) WalkExprs(f func(e *Expr)) {
	var we func(e *Expr)
	we = func(e *Expr) {
		if e == nil {
			return
		}
		f(e)
		we(e.L)
		we(e.R)
	}
	var ws func(x *Src)
	ws = func(x *Src) {
		if x == nil {
			return
		}
		we(x.Addr)
		we(x.Bound)
		we(x.Cap)
		for _, c := range x.Subs {
			ws(c)
		}
		for _, it := range x.Items {
			ws(it.From)
		}
		ws(x.From)
	}
	var wd func(x *Dst)
	wk := func(k *KOD) {
		if k != nil && !k.Kept {
			wd(k.Dst)
		}
	}
	wd = func(x *Dst) {
		if x == nil {
			return
		}
		we(x.Addr)
		for i := range x.Clauses {
			we(x.Clauses[i].Cap)
			wk(&x.Clauses[i].To)
		}
		wk(x.Remaining)
		for i := range x.Items {
			wk(&x.Items[i].To)
		}
	}
	for _, v := range s.Vars {
		if v.Origin != nil {
			for _, a := range v.Origin.Args {
				we(a)
			}
		}
	}
	for _, st := range s.Stmts {
		we(st.Sent)
		ws(st.Src)
		wd(st.Dst)
		we(st.SaveFrom)
		if st.Call != nil {
			for _, a := range st.Call.Args {
				we(a)
			}
		}
	}
}

// Features returns a sorted, de-duplicated list of construct labels present in the script.
func (s *Script) Features() []string {
	set := map[string]bool{}
	var ws func(x *Src)
	ws = func(x *Src) {
		if x == nil {
			return
		}
		switch x.Kind {
		case SAcct:
			set["src.acct"] = true
		case SOver:
			if x.Bound == nil {
				set["src.unbounded"] = true
			} else {
				set["src.bounded"] = true
			}
		case SInorder:
			set["src.inorder"] = true
		case SAllot:
			set["src.allot"] = true
		case SCapped:
			set["src.capped"] = true
		}
		for _, c := range x.Subs {
			ws(c)
		}
		for _, it := range x.Items {
			set["allot."+it.Portion.Kind] = true
			ws(it.From)
		}
		ws(x.From)
	}
	var wd func(x *Dst)
	wk := func(k *KOD) {
		if k == nil {
			return
		}
		if k.Kept {
			set["dst.kept"] = true
		} else {
			wd(k.Dst)
		}
	}
	wd = func(x *Dst) {
		if x == nil {
			return
		}
		set["dst."+x.Kind] = true
		for i := range x.Clauses {
			wk(&x.Clauses[i].To)
		}
		wk(x.Remaining)
		for i := range x.Items {
			set["allot."+x.Items[i].Portion.Kind] = true
			wk(&x.Items[i].To)
		}
	}
	for _, v := range s.Vars {
		set["vartype."+v.Type] = true
		if v.Origin != nil {
			set["origin."+v.Origin.Fn] = true
		}
	}
	for _, st := range s.Stmts {
		switch st.Kind {
		case StSend:
			if st.All {
				set["send.all"] = true
			} else {
				set["send.fixed"] = true
			}
		case StSave:
			set["save"] = true
		case StCall:
			set["call."+st.Call.Fn] = true
		}
		ws(st.Src)
		wd(st.Dst)
	}
	s.WalkExprs(func(e *Expr) { set["expr."+e.Kind] = true })
	out := make([]string, 0, len(set))
	for k := range set {
		out = append(out, k)
	}
	sortStrings(out)
	return out
}

func sortStrings(a []string) {
	for i := 1; i < len(a); i++ {
		for j := i; j > 0 && strings.Compare(a[j-1], a[j]) > 0; j-- {
			a[j-1], a[j] = a[j], a[j-1]
		}
	}
}
