package gen

import (
	"fmt"
	"math/big"
	"strings"
)

// Compare reports the first difference between the written script (want) and the parsed
// one (got): structure, literal values and - when spans is set - the span of every node
// that carries one on both sides. "" means equal.

type cmp struct {
	spans bool
	diff  string
}

func (c *cmp) fail(path, f string, a ...any) {
	if c.diff == "" {
		c.diff = path + ": " + fmt.Sprintf(f, a...)
	}
}

func (c *cmp) span(path string, w, g *Span) {
	if !c.spans || c.diff != "" {
		return
	}
	if w == nil || g == nil {
		if w != nil && g == nil {
			c.fail(path, "no range on the parsed node (written span %v)", *w)
		}
		return
	}
	if *w != *g {
		c.fail(path, "range: written %d:%d-%d:%d, parsed %d:%d-%d:%d", w.SL, w.SC, w.EL, w.EC, g.SL, g.SC, g.EL, g.EC)
	}
}

func ratValue(text string) (*big.Rat, bool) {
	if strings.HasSuffix(text, "%") {
		body := strings.TrimSuffix(text, "%")
		ip, fp := body, ""
		if i := strings.IndexByte(body, '.'); i >= 0 {
			ip, fp = body[:i], body[i+1:]
		}
		n, ok := new(big.Int).SetString(ip+fp, 10)
		if !ok {
			return nil, false
		}
		den := new(big.Int).Exp(big.NewInt(10), big.NewInt(int64(2+len(fp))), nil)
		return new(big.Rat).SetFrac(n, den), true
	}
	parts := strings.Split(text, "/")
	if len(parts) != 2 {
		return nil, false
	}
	n, ok1 := new(big.Int).SetString(strings.TrimSpace(parts[0]), 10)
	d, ok2 := new(big.Int).SetString(strings.TrimSpace(parts[1]), 10)
	if !ok1 || !ok2 || d.Sign() == 0 {
		return nil, false
	}
	return new(big.Rat).SetFrac(n, d), true
}

func samePortion(a, b string) bool {
	x, ok1 := ratValue(a)
	y, ok2 := ratValue(b)
	if !ok1 || !ok2 {
		// n/0 in any spelling (`1/00`, `01 / 0`): the same numerator over zero
		if n1, z1 := overZero(a); z1 {
			if n2, z2 := overZero(b); z2 {
				return n1.Cmp(n2) == 0
			}
		}
		return a == b
	}
	return x.Cmp(y) == 0
}

func overZero(text string) (*big.Int, bool) {
	parts := strings.Split(text, "/")
	if len(parts) != 2 {
		return nil, false
	}
	n, ok1 := new(big.Int).SetString(strings.TrimSpace(parts[0]), 10)
	d, ok2 := new(big.Int).SetString(strings.TrimSpace(parts[1]), 10)
	if !ok1 || !ok2 || d.Sign() != 0 {
		return nil, false
	}
	return n, true
}

func sameNumber(a, b string) bool {
	x, ok1 := new(big.Int).SetString(a, 10)
	y, ok2 := new(big.Int).SetString(b, 10)
	if !ok1 || !ok2 {
		return a == b
	}
	return x.Cmp(y) == 0
}

func (c *cmp) expr(path string, w, g *Expr) {
	if c.diff != "" {
		return
	}
	if w == nil || g == nil {
		if w != g {
			c.fail(path, "expression present on one side only")
		}
		return
	}
	if w.Kind != g.Kind {
		c.fail(path, "written %s, parsed %s", w.Kind, g.Kind)
		return
	}
	switch w.Kind {
	case ENum:
		if !sameNumber(w.Text, g.Text) {
			c.fail(path, "number written %s, parsed %s", w.Text, g.Text)
		}
	case EPortion:
		if !samePortion(w.Text, g.Text) {
			c.fail(path, "portion written %s, parsed %s", w.Text, g.Text)
		}
	case EMon:
		c.expr(path+".asset", w.L, g.L)
		c.expr(path+".amount", w.R, g.R)
	case EInfix:
		if w.Op != g.Op {
			c.fail(path, "operator written %s, parsed %s", w.Op, g.Op)
		}
		c.expr(path+".left", w.L, g.L)
		c.expr(path+".right", w.R, g.R)
	case EStr:
		// the value of a string literal is its characters, with the one escape the grammar
		// knows (backslash quote) either kept as written or resolved
		if w.Text != g.Text && strings.ReplaceAll(w.Text, "\\\"", "\"") != g.Text {
			c.fail(path, "%s written %q, parsed %q", w.Kind, w.Text, g.Text)
		}
	default:
		if w.Text != g.Text {
			c.fail(path, "%s written %q, parsed %q", w.Kind, w.Text, g.Text)
		}
	}
	c.span(path, w.Span, g.Span)
}

func (c *cmp) allot(path string, w, g *Allot) {
	if c.diff != "" {
		return
	}
	if w.Kind != g.Kind {
		c.fail(path, "allotment written %s, parsed %s", w.Kind, g.Kind)
		return
	}
	switch w.Kind {
	case ALit:
		if !samePortion(w.Text, g.Text) {
			c.fail(path, "portion written %s, parsed %s", w.Text, g.Text)
		}
	case AVar:
		if w.Text != g.Text {
			c.fail(path, "variable written %s, parsed %s", w.Text, g.Text)
		}
	}
	c.span(path, w.Span, g.Span)
}

func (c *cmp) src(path string, w, g *Src) {
	if c.diff != "" {
		return
	}
	if w == nil || g == nil {
		if w != g {
			c.fail(path, "source present on one side only")
		}
		return
	}
	if w.Kind != g.Kind {
		c.fail(path, "source written %s, parsed %s", w.Kind, g.Kind)
		return
	}
	c.expr(path+".addr", w.Addr, g.Addr)
	c.expr(path+".bound", w.Bound, g.Bound)
	c.expr(path+".cap", w.Cap, g.Cap)
	c.src(path+".from", w.From, g.From)
	if len(w.Subs) != len(g.Subs) {
		c.fail(path, "%d sources written, %d parsed", len(w.Subs), len(g.Subs))
		return
	}
	for i := range w.Subs {
		c.src(fmt.Sprintf("%s[%d]", path, i), w.Subs[i], g.Subs[i])
	}
	if len(w.Items) != len(g.Items) {
		c.fail(path, "%d allotment items written, %d parsed", len(w.Items), len(g.Items))
		return
	}
	for i := range w.Items {
		p := fmt.Sprintf("%s.item[%d]", path, i)
		c.allot(p+".portion", &w.Items[i].Portion, &g.Items[i].Portion)
		c.src(p+".from", w.Items[i].From, g.Items[i].From)
		c.span(p, w.Items[i].Span, g.Items[i].Span)
	}
	c.span(path, w.Span, g.Span)
}

func (c *cmp) kod(path string, w, g *KOD) {
	if c.diff != "" {
		return
	}
	if w == nil || g == nil {
		if w != g {
			c.fail(path, "kept-or-destination present on one side only")
		}
		return
	}
	if w.Kept != g.Kept {
		c.fail(path, "kept written %v, parsed %v", w.Kept, g.Kept)
		return
	}
	if w.Kept {
		c.span(path, w.Span, g.Span)
		return
	}
	c.dst(path, w.Dst, g.Dst)
}

// normDst rewrites the one-clause `{ remaining X }` destination, which the grammar derives
// both as an allotment and as an ordered destination, to the ordered form.
func normDst(d *Dst) *Dst {
	if d != nil && d.Kind == DAllot && len(d.Items) == 1 && d.Items[0].Portion.Kind == ARemaining {
		k := d.Items[0].To
		return &Dst{Kind: DInorder, Remaining: &k, Span: d.Span}
	}
	return d
}

func (c *cmp) dst(path string, w, g *Dst) {
	if c.diff != "" {
		return
	}
	if w == nil || g == nil {
		if w != g {
			c.fail(path, "destination present on one side only")
		}
		return
	}
	w, g = normDst(w), normDst(g)
	if w.Kind != g.Kind {
		c.fail(path, "destination written %s, parsed %s", w.Kind, g.Kind)
		return
	}
	c.expr(path+".addr", w.Addr, g.Addr)
	if len(w.Clauses) != len(g.Clauses) {
		c.fail(path, "%d clauses written, %d parsed", len(w.Clauses), len(g.Clauses))
		return
	}
	for i := range w.Clauses {
		p := fmt.Sprintf("%s.clause[%d]", path, i)
		c.expr(p+".cap", w.Clauses[i].Cap, g.Clauses[i].Cap)
		c.kod(p+".to", &w.Clauses[i].To, &g.Clauses[i].To)
		c.span(p, w.Clauses[i].Span, g.Clauses[i].Span)
	}
	c.kod(path+".remaining", w.Remaining, g.Remaining)
	if len(w.Items) != len(g.Items) {
		c.fail(path, "%d allotment items written, %d parsed", len(w.Items), len(g.Items))
		return
	}
	for i := range w.Items {
		p := fmt.Sprintf("%s.item[%d]", path, i)
		c.allot(p+".portion", &w.Items[i].Portion, &g.Items[i].Portion)
		c.kod(p+".to", &w.Items[i].To, &g.Items[i].To)
		c.span(p, w.Items[i].Span, g.Items[i].Span)
	}
	c.span(path, w.Span, g.Span)
}

func (c *cmp) call(path string, w, g *Call) {
	if c.diff != "" {
		return
	}
	if w == nil || g == nil {
		if w != g {
			c.fail(path, "call present on one side only")
		}
		return
	}
	if w.Fn != g.Fn {
		c.fail(path, "function written %s, parsed %s", w.Fn, g.Fn)
		return
	}
	if len(w.Args) != len(g.Args) {
		c.fail(path, "%d arguments written, %d parsed", len(w.Args), len(g.Args))
		return
	}
	for i := range w.Args {
		c.expr(fmt.Sprintf("%s.arg[%d]", path, i), w.Args[i], g.Args[i])
	}
	c.span(path+".name", w.NameSpan, g.NameSpan)
	c.span(path, w.Span, g.Span)
}

// Compare returns "" when got has the structure and values (and spans) of want.
func Compare(want, got *Script, spans bool) string {
	c := &cmp{spans: spans}
	if len(want.Vars) != len(got.Vars) {
		return fmt.Sprintf("%d declarations written, %d parsed", len(want.Vars), len(got.Vars))
	}
	for i := range want.Vars {
		w, g := &want.Vars[i], &got.Vars[i]
		p := fmt.Sprintf("vars[%d]", i)
		if w.Type != g.Type || w.Name != g.Name {
			c.fail(p, "written %s $%s, parsed %s $%s", w.Type, w.Name, g.Type, g.Name)
		}
		c.call(p+".origin", w.Origin, g.Origin)
		c.span(p+".type", w.TypeSpan, g.TypeSpan)
		c.span(p+".name", w.NameSpan, g.NameSpan)
		c.span(p, w.Span, g.Span)
	}
	if len(want.Stmts) != len(got.Stmts) {
		return fmt.Sprintf("%d statements written, %d parsed", len(want.Stmts), len(got.Stmts))
	}
	for i := range want.Stmts {
		w, g := want.Stmts[i], got.Stmts[i]
		p := fmt.Sprintf("stmt[%d]", i)
		if w.Kind != g.Kind || w.All != g.All {
			c.fail(p, "written %s (all=%v), parsed %s (all=%v)", w.Kind, w.All, g.Kind, g.All)
			continue
		}
		c.expr(p+".sent", w.Sent, g.Sent)
		c.span(p+".sentvalue", w.SentSpan, g.SentSpan)
		c.src(p+".source", w.Src, g.Src)
		c.dst(p+".destination", w.Dst, g.Dst)
		c.expr(p+".savefrom", w.SaveFrom, g.SaveFrom)
		c.call(p+".call", w.Call, g.Call)
		c.span(p, w.Span, g.Span)
	}
	return c.diff
}
