package selftest

import (
	"testing"

	"github.com/formancehq/numscript/verifapi"
	"pgregory.net/rapid"
	"verifharness/lex"
)

var frags = []string{
	"send", "save", "vars", "max", "from", "to", "kept", "remaining", "allowing", "unbounded", "overdraft", "up", "source", "destination",
	"(", ")", "[", "]", "{", "}", ",", "=", "*", "-", "+", " ", "  ", "\t", "\n", "\r\n", "\r",
	"//", "// c\n", "/*", "*/", "/* c */", "/* /* n */ */", "/", "%", ".", ":", "_", "$", "@", "\"", "\\\"", "\\",
	"USD", "EUR/2", "1", "0", "10", "-1", "1/2", "1 / 2", "50%", "1.5%", "$x", "$a_1", "@a", "@a:b", "@world", "\"s\"", "x", "abc_d", "é", "🙂", "A", "9", "a",
}

func TestLexerAgreesWithANTLR(t *testing.T) {
	rapid.Check(t, func(t *rapid.T) {
		n := rapid.IntRange(0, 12).Draw(t, "n")
		s := ""
		for i := 0; i < n; i++ {
			s += rapid.SampledFrom(frags).Draw(t, "f")
		}
		want, nerr := verifapi.LexAll(s)
		got := lex.Lex(s)
		if got.Uncertain {
			t.Skip("uncertain")
		}
		if (nerr == 0) != (len(got.Errors) == 0) {
			t.Fatalf("error disagreement on %q: antlr %d, ref %v", s, nerr, got.Errors)
		}
		if nerr != 0 {
			return
		}
		if len(want) != len(got.Tokens) {
			t.Fatalf("token count on %q: antlr %v ref %v", s, want, got.Tokens)
		}
		for i := range want {
			g := got.Tokens[i]
			if want[i].Text != g.Text || want[i].Line != g.Line || want[i].Col != g.Col {
				t.Fatalf("token %d on %q: antlr %+v ref %+v", i, s, want[i], g)
			}
		}
	})
}
