// copy to: . (repository root, next to numscript.go)
package numscript_test

// Property C12: "For every script that parses without errors ... execution returns
// either a complete result or an error value ...; it never panics".
//
// The interpreter evaluates a chain of infix operators ("1 + 1 + 1 + ...") by
// unbounded recursion (evaluateExpr -> plusOp -> evaluateExprAs -> evaluateExpr ...),
// one level per operator, because the grammar makes the chain a left-nested tree.
// The ANTLR parser handles the same chain iteratively, so a (large but perfectly legal,
// ~4 MB) script parses without errors, and then execution kills the whole process with
// "fatal error: stack overflow" - which, unlike an ordinary panic, cannot even be recovered
// by the caller.
//
// The execution is done in a child process (a re-execution of this test binary) so that
// the crash can be observed and reported as an ordinary test failure.

import (
	"context"
	"fmt"
	"os"
	"os/exec"
	"strings"
	"testing"

	"github.com/formancehq/numscript"
	"github.com/formancehq/numscript/internal/interpreter"
)

const genuine1ChildEnv = "NUMSCRIPT_GENUINE1_CHILD"
const genuine1Terms = 1_000_000

func genuine1Child() {
	src := `set_tx_meta("k", 1` + strings.Repeat(" + 1", genuine1Terms) + ")\n"
	parsed := numscript.Parse(src)
	if n := len(parsed.GetParsingErrors()); n != 0 {
		fmt.Printf("CHILD: PARSE_ERRORS %d\n", n)
		os.Exit(0)
	}
	fmt.Println("CHILD: PARSED_WITHOUT_ERRORS")

	// a recover() is installed, to show that this is not even a recoverable panic
	defer func() {
		if r := recover(); r != nil {
			fmt.Printf("CHILD: RECOVERED_PANIC %v\n", r)
			os.Exit(0)
		}
	}()
	res, err := parsed.Run(context.Background(), numscript.VariablesMap{}, interpreter.StaticStore{})
	if err != nil {
		fmt.Printf("CHILD: RETURNED_ERROR %T\n", err)
	} else {
		fmt.Printf("CHILD: RETURNED_RESULT k=%s\n", res.Metadata["k"])
	}
	os.Exit(0)
}

func TestGenuine1(t *testing.T) {
	if os.Getenv(genuine1ChildEnv) == "1" {
		genuine1Child()
		return
	}

	cmd := exec.Command(os.Args[0], "-test.run=^TestGenuine1$", "-test.count=1")
	cmd.Env = append(os.Environ(), genuine1ChildEnv+"=1")
	outBytes, runErr := cmd.CombinedOutput()
	out := string(outBytes)
	if len(out) > 1500 {
		out = out[:1500] + "\n[...]"
	}

	if strings.Contains(out, "CHILD: PARSE_ERRORS") {
		t.Skip("the script does not parse without errors: it is outside of the quantifier of the property")
	}
	if !strings.Contains(out, "CHILD: PARSED_WITHOUT_ERRORS") {
		t.Fatalf("the child process died before the end of Parse() (not the violation under test): %v\n%s", runErr, out)
	}

	// The property: execution returns a result or an error value, it never panics
	if strings.Contains(out, "CHILD: RECOVERED_PANIC") {
		t.Fatalf("execution of a script that parses without errors panicked:\n%s", out)
	}
	returned := strings.Contains(out, "CHILD: RETURNED_RESULT") || strings.Contains(out, "CHILD: RETURNED_ERROR")
	if runErr != nil || !returned {
		t.Fatalf("execution of a script that parses without errors (%d chained '+') neither returned a result nor an error value: the process crashed (%v):\n%s",
			genuine1Terms, runErr, out)
	}
}
