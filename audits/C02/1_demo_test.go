// copy to: internal/interpreter
//
// Property C02: every posting of a successful execution names a real source and
// destination account (never an empty name, never the internal marker used for
// kept funds), has a strictly positive amount and carries the statement's asset.
//
// Counterexample 1: the value of an account-typed variable (given by the caller,
// or read from metadata with meta()) is used as an account name without any
// validation, so "" and "<kept>" end up as the source / destination of postings.
package interpreter_test

import (
	"context"
	"math/big"
	"testing"

	machine "github.com/formancehq/numscript/internal/interpreter"
	"github.com/formancehq/numscript/internal/parser"
)

func TestGenuine1(t *testing.T) {
	type input struct {
		name     string
		script   string
		vars     map[string]string
		balances machine.Balances
		meta     machine.AccountsMetadata
		asset    string
	}

	inputs := []input{
		{
			name: "empty destination given as a variable",
			script: `vars { account $dest }
send [USD 10] (
  source = @world
  destination = $dest
)`,
			vars:  map[string]string{"dest": ""},
			asset: "USD",
		},
		{
			name: "empty source given as a variable",
			script: `vars { account $src }
send [USD 10] (
  source = $src
  destination = @bob
)`,
			vars:     map[string]string{"src": ""},
			balances: machine.Balances{"": {"USD": big.NewInt(100)}},
			asset:    "USD",
		},
		{
			name: "kept marker as a source given as a variable",
			script: `vars { account $src }
send [USD 10] (
  source = $src allowing unbounded overdraft
  destination = @bob
)`,
			vars:  map[string]string{"src": "<kept>"},
			asset: "USD",
		},
		{
			name: "empty destination read from metadata",
			script: `vars { account $dest = meta(@config, "payee") }
send [USD 10] (
  source = @world
  destination = $dest
)`,
			vars:  map[string]string{},
			meta:  machine.AccountsMetadata{"config": {"payee": ""}},
			asset: "USD",
		},
	}

	for _, in := range inputs {
		parsed := parser.Parse(in.script)
		if len(parsed.Errors) != 0 {
			t.Fatalf("%s: the script does not parse: %v", in.name, parsed.Errors)
		}

		res, err := machine.RunProgram(
			context.Background(),
			parsed.Value,
			in.vars,
			machine.StaticStore{Balances: in.balances, Meta: in.meta},
			nil,
		)
		if err != nil {
			// the property only talks about successful executions
			// (rejecting these inputs is a way to satisfy it)
			continue
		}

		for _, p := range res.Postings {
			if p.Amount == nil || p.Amount.Sign() <= 0 {
				t.Errorf("%s: posting %q -> %q has a non positive amount %v", in.name, p.Source, p.Destination, p.Amount)
			}
			if p.Asset != in.asset {
				t.Errorf("%s: posting %q -> %q has asset %q, the statement sends %q", in.name, p.Source, p.Destination, p.Asset, in.asset)
			}
			for side, account := range map[string]string{"source": p.Source, "destination": p.Destination} {
				if account == "" {
					t.Errorf("%s: the %s of the posting {%q -> %q, %s %v} is the empty name", in.name, side, p.Source, p.Destination, p.Asset, p.Amount)
				}
				if account == machine.KEPT_ADDR {
					t.Errorf("%s: the %s of the posting {%q -> %q, %s %v} is the internal marker of kept funds", in.name, side, p.Source, p.Destination, p.Asset, p.Amount)
				}
			}
		}
	}
}
