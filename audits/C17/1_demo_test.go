// copy to: internal/interpreter
//
// Property C17, second sentence: "Whenever [static analysis] reports nothing at all,
// execution additionally never fails because of the shape of a send-all source."
//
// Counterexample (value-dependent unbounded source): the source of a send-all is an
// account *variable*; the checker only recognises the literal @world as unbounded,
// so it reports nothing, but with the well-typed account value "world" the run fails
// with InvalidUnboundedInSendAll ("cannot take all balance from an unbounded source").
package interpreter_test

import (
	"context"
	"math/big"
	"testing"

	"github.com/formancehq/numscript/internal/analysis"
	"github.com/formancehq/numscript/internal/interpreter"
)

func TestGenuine1(t *testing.T) {
	scripts := []string{
		// plain account variable as send-all source
		"vars {\n  account $src\n}\nsend [USD *] (\n  source = $src\n  destination = @dest\n)\n",
		// same root cause, bounded overdraft on an account variable
		"vars {\n  account $src\n}\nsend [USD *] (\n  source = $src allowing overdraft up to [USD 10]\n  destination = @dest\n)\n",
		// same root cause, nested in an in-order source
		"vars {\n  account $src\n}\nsend [USD *] (\n  source = { @alice $src }\n  destination = @dest\n)\n",
	}
	// every value is a legal value of the declared type `account`
	values := []string{"alice", "bob:savings", "world"}

	for _, script := range scripts {
		res := analysis.CheckSource(script)
		if len(res.Diagnostics) != 0 {
			// premise of the property not met: nothing to assert
			continue
		}

		for _, v := range values {
			store := interpreter.StaticStore{
				Balances: interpreter.Balances{
					"alice": {"USD": big.NewInt(100)},
				},
			}
			_, err := interpreter.RunProgram(
				context.Background(),
				res.Program,
				map[string]string{"src": v},
				store,
				nil,
			)
			if err == nil {
				continue
			}
			switch err.(type) {
			case interpreter.InvalidUnboundedInSendAll, interpreter.InvalidAllotmentInSendAll:
				t.Errorf("the checker reported nothing at all, but with $src=%q execution failed "+
					"because of the send-all source: %T: %v\nscript:\n%s", v, err, err, script)
			case interpreter.TypeError, interpreter.UnboundVariableErr, interpreter.UnboundFunctionErr,
				interpreter.BadArityErr, interpreter.InvalidTypeErr:
				t.Errorf("the checker reported no error, but with $src=%q execution failed "+
					"with a static-class error: %T: %v\nscript:\n%s", v, err, err, script)
			}
		}
	}
}
