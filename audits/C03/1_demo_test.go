// copy to: internal/interpreter
package interpreter_test

import (
	"context"
	"math/big"
	"testing"

	machine "github.com/formancehq/numscript/internal/interpreter"
	"github.com/formancehq/numscript/internal/parser"
)

// Property C03: for `send [A n]`, either the postings add up to exactly n minus the parts the
// destination EXPLICITLY keeps (a `kept` clause), or the run fails with an insufficient-funds
// error and returns no postings.
//
// The scripts below contain no `kept` clause at all, and the source (@world) can always supply n.
// So the postings must add up to exactly n. They do not: an account variable whose value is the
// string "<kept>" collides with the interpreter's internal marker (KEPT_ADDR) and the reconciler
// silently withholds the funds.
func TestGenuine1(t *testing.T) {
	type tc struct {
		name   string
		script string
		vars   map[string]string
		meta   machine.AccountsMetadata
		n      string
	}
	cases := []tc{
		{
			name: "whole destination is the variable",
			script: `vars { account $dest }
send [A 10] (source = @world destination = $dest)`,
			vars: map[string]string{"dest": "<kept>"},
			n:    "10",
		},
		{
			name: "variable inside an ordered destination, n beyond 2^64",
			script: `vars { account $dest monetary $m }
send $m (source = @world destination = { max [A 3] to $dest remaining to @x })`,
			vars: map[string]string{"dest": "<kept>", "m": "A 18446744073709551621"},
			n:    "18446744073709551621",
		},
		{
			name: "account read from metadata",
			script: `vars { account $dest = meta(@cfg, "payee") }
send [A 10] (source = @world destination = { 1/2 to $dest 1/2 to @x })`,
			vars: map[string]string{},
			meta: machine.AccountsMetadata{"cfg": {"payee": "<kept>"}},
			n:    "10",
		},
	}

	for _, c := range cases {
		t.Run(c.name, func(t *testing.T) {
			parsed := parser.Parse(c.script)
			if len(parsed.Errors) != 0 {
				t.Fatalf("unexpected parse errors: %v", parsed.Errors)
			}
			n, _ := new(big.Int).SetString(c.n, 10)

			res, err := machine.RunProgram(
				context.Background(),
				parsed.Value,
				c.vars,
				machine.StaticStore{Balances: machine.Balances{}, Meta: c.meta},
				nil,
			)
			if err != nil {
				// the only failure the property allows is insufficient funds, with no postings
				if _, ok := err.(machine.MissingFundsErr); !ok {
					t.Fatalf("failed with something else than insufficient funds: %v", err)
				}
				if res != nil {
					t.Fatalf("a failed run returned a result: %+v", res)
				}
				return
			}

			// success: no `kept` clause in the script => the postings must add up to n
			sum := new(big.Int)
			for _, p := range res.Postings {
				sum.Add(sum, p.Amount)
			}
			if sum.Cmp(n) != 0 {
				t.Fatalf("send of %s succeeded, the destination has no `kept` clause, but the postings add up to %s: %+v",
					n, sum, res.Postings)
			}
		})
	}
}
