// copy to: . (the repository root, next to numscript.go; package numscript_test)
//
// Property C20: `numscript run`, in JSON mode, prints exactly the postings and
// metadata the library returns, for the same script/variables/balances/metadata
// given through any input channel (--raw, --stdin, file flags).
//
// Counterexample: a monetary value whose asset contains a character that is
// special inside a JSON string (backslash, double quote, control character).
// The library accepts such assets (parseVar/parseMonetary do not validate them),
// but interpreter.Monetary.MarshalJSON pastes the asset unescaped between quotes,
// so the CLI either prints a DIFFERENT metadata value (the backslash sequence is
// re-interpreted as a JSON escape) or crashes (exit status 2, nothing printed)
// although the library returned a result and no error.
package numscript_test

import (
	"bytes"
	"context"
	"encoding/json"
	"math/big"
	"os"
	"os/exec"
	"path/filepath"
	"reflect"
	"strings"
	"testing"

	"github.com/formancehq/numscript"
)

func TestGenuine1(t *testing.T) {
	// build the CLI (unchanged tree)
	tmp := t.TempDir()
	bin := filepath.Join(tmp, "numscript-cli")
	build := exec.Command("go", "build", "-o", bin, "./internal/numscript")
	if out, err := build.CombinedOutput(); err != nil {
		t.Fatalf("cannot build the cli: %v\n%s", err, out)
	}

	type cliInput struct {
		Script    string                     `json:"script"`
		Variables map[string]string          `json:"variables"`
		Meta      numscript.AccountsMetadata `json:"metadata"`
		Balances  numscript.Balances         `json:"balances"`
	}

	script := "vars { monetary $m }\n" +
		"set_tx_meta(\"k\", $m)\n" +
		"send $m (source = @world destination = @dest)\n"

	const backslash = "\\"

	inputs := []cliInput{
		// silent mismatch: the six characters backslash,u,0,0,4,1 are re-read as the JSON escape of "A"
		{Script: script, Variables: map[string]string{"m": "US" + backslash + "u0041D 10"}},
		// crash: the quote ends the JSON string too early
		{Script: script, Variables: map[string]string{"m": `US"D 10`}},
	}

	for _, in := range inputs {
		in.Meta = numscript.AccountsMetadata{}
		in.Balances = numscript.Balances{}

		// ---- what the library computes
		parsed := numscript.Parse(in.Script)
		if errs := parsed.GetParsingErrors(); len(errs) != 0 {
			t.Fatalf("unexpected parse errors: %v", errs)
		}
		libRes, libErr := parsed.Run(context.Background(), in.Variables, numscript.StaticStore{
			Balances: numscript.Balances{},
			Meta:     numscript.AccountsMetadata{},
		})
		if libErr != nil {
			t.Fatalf("the library is expected to accept this input, got: %v", libErr)
		}
		wantTxMeta := map[string]string{}
		for k, v := range libRes.Metadata {
			wantTxMeta[k] = v.String()
		}

		// ---- the three input channels of the CLI
		rawJson, err := json.Marshal(in)
		if err != nil {
			t.Fatal(err)
		}
		write := func(name string, content []byte) string {
			p := filepath.Join(tmp, name)
			if err := os.WriteFile(p, content, 0o644); err != nil {
				t.Fatal(err)
			}
			return p
		}
		varsJson, _ := json.Marshal(in.Variables)
		balJson, _ := json.Marshal(in.Balances)
		metaJson, _ := json.Marshal(in.Meta)

		type channel struct {
			name  string
			args  []string
			stdin string
		}
		channels := []channel{
			{name: "--raw", args: []string{"run", "--output-format", "json", "--raw", string(rawJson)}},
			{name: "--stdin", args: []string{"run", "--output-format", "json", "--stdin"}, stdin: string(rawJson)},
			{name: "file flags", args: []string{"run", "--output-format", "json",
				write("script.num", []byte(in.Script)),
				"-v", write("vars.json", varsJson),
				"-b", write("balances.json", balJson),
				"-m", write("meta.json", metaJson),
			}},
		}

		for _, ch := range channels {
			cmd := exec.Command(bin, ch.args...)
			var stdout, stderr bytes.Buffer
			cmd.Stdout = &stdout
			cmd.Stderr = &stderr
			cmd.Stdin = strings.NewReader(ch.stdin)
			runErr := cmd.Run()

			// the library returned no error: the CLI must succeed and print the result
			if runErr != nil {
				firstLine := strings.SplitN(stderr.String(), "\n", 2)[0]
				t.Errorf("[%s] variables=%q: the library succeeds (txMeta=%q) but the cli fails: %v (stderr: %s)",
					ch.name, in.Variables, wantTxMeta, runErr, firstLine)
				continue
			}

			var got struct {
				Postings []struct {
					Source      string   `json:"source"`
					Destination string   `json:"destination"`
					Amount      *big.Int `json:"amount"`
					Asset       string   `json:"asset"`
				} `json:"postings"`
				TxMeta       map[string]string            `json:"txMeta"`
				AccountsMeta map[string]map[string]string `json:"accountsMeta"`
			}
			if err := json.Unmarshal(stdout.Bytes(), &got); err != nil {
				t.Errorf("[%s] variables=%q: cli output is not the expected json: %v\n%s", ch.name, in.Variables, err, stdout.String())
				continue
			}

			// postings
			if len(got.Postings) != len(libRes.Postings) {
				t.Errorf("[%s] postings: cli printed %d, library returned %d", ch.name, len(got.Postings), len(libRes.Postings))
			} else {
				for i, want := range libRes.Postings {
					g := got.Postings[i]
					if g.Source != want.Source || g.Destination != want.Destination || g.Asset != want.Asset ||
						g.Amount == nil || g.Amount.Cmp(want.Amount) != 0 {
						t.Errorf("[%s] posting %d: cli printed %+v, library returned %+v", ch.name, i, g, want)
					}
				}
			}

			// tx metadata
			if got.TxMeta == nil {
				got.TxMeta = map[string]string{}
			}
			if !reflect.DeepEqual(got.TxMeta, wantTxMeta) {
				t.Errorf("[%s] variables=%q: tx metadata printed by the cli %q differs from the one returned by the library %q",
					ch.name, in.Variables, got.TxMeta, wantTxMeta)
			}
		}
	}
}
