// copy to: internal/analysis
package analysis_test

import (
	"fmt"
	"regexp"
	"sort"
	"strings"
	"testing"

	"github.com/formancehq/numscript/internal/analysis"
)

// Property C16 (names part): every use of an undeclared variable is reported
// exactly once at its token, every declared-but-never-used variable is reported
// exactly once, and no other variable is reported.
//
// The script is a valid script in which one use has been duplicated as a further
// argument of a function call (so the call has one argument too many).
// The checker never looks at the arguments beyond the arity of the function:
//   - the use of the undeclared $nope is not reported at all;
//   - $used, whose only use is such an argument, is reported as "never used".
func TestGenuine1(t *testing.T) {
	src := strings.Join([]string{
		`vars {`,
		`  account $used`,
		`  monetary $m = balance(@a, USD, $ghost)`,
		`}`,
		`set_tx_meta("k", 1, $used)`,
		`set_account_meta(@a, "k", $m, $nope)`,
	}, "\n") + "\n"

	// ---- independent count of declarations and uses (token based) ----
	type occ struct {
		name            string
		line, col, end_ int
	}
	varRe := regexp.MustCompile(`\$[a-z_]+[a-z0-9_]*`)
	declRe := regexp.MustCompile(`^\s*[a-z]+\s+(\$[a-z_]+[a-z0-9_]*)`)
	var expected []string
	declared := map[string]occ{}
	used := map[string]bool{}
	for lineNo, line := range strings.Split(src, "\n") {
		declCol := -1
		if m := declRe.FindStringSubmatchIndex(line); m != nil {
			declCol = m[2]
		}
		var declOcc *occ
		for _, loc := range varRe.FindAllStringIndex(line, -1) {
			o := occ{line[loc[0]+1 : loc[1]], lineNo, loc[0], loc[1]}
			if loc[0] == declCol {
				declOcc = &o
				continue
			}
			// a use (the uses in an origin are evaluated before the variable of that line is declared)
			if _, ok := declared[o.name]; ok {
				used[o.name] = true
			} else {
				expected = append(expected, fmt.Sprintf("unbound $%s @%d:%d-%d", o.name, o.line, o.col, o.end_))
			}
		}
		if declOcc != nil {
			if _, ok := declared[declOcc.name]; ok {
				expected = append(expected, fmt.Sprintf("duplicate $%s @%d:%d-%d", declOcc.name, declOcc.line, declOcc.col, declOcc.end_))
			} else {
				declared[declOcc.name] = *declOcc
			}
		}
	}
	for name, o := range declared {
		if !used[name] {
			expected = append(expected, fmt.Sprintf("unused $%s @%d:%d-%d", name, o.line, o.col, o.end_))
		}
	}
	sort.Strings(expected)

	// ---- what the checker says ----
	var actual []string
	for _, d := range analysis.CheckSource(src).Diagnostics {
		var kind, name string
		switch k := d.Kind.(type) {
		case *analysis.UnboundVariable:
			kind, name = "unbound", k.Name
		case *analysis.DuplicateVariable:
			kind, name = "duplicate", k.Name
		case *analysis.UnusedVar:
			kind, name = "unused", k.Name
		default:
			continue
		}
		actual = append(actual, fmt.Sprintf("%s $%s @%d:%d-%d", kind, name, d.Range.Start.Line, d.Range.Start.Character, d.Range.End.Character))
	}
	sort.Strings(actual)

	if strings.Join(expected, "\n") != strings.Join(actual, "\n") {
		t.Fatalf("variable diagnostics are not exact\nscript:\n%s\nexpected (independent count): %v\nreported by the checker:    %v", src, expected, actual)
	}
}
