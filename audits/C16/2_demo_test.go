// copy to: internal/analysis
package analysis_test

import (
	"testing"

	"github.com/formancehq/numscript/internal/analysis"
)

// Property C16 (no false alarm part): a statically valid script receives no
// error-severity diagnostic.
//
// The script is valid (it is accepted without any diagnostic when it ends with a
// newline); it just ends with a line comment that is not followed by a newline.
func TestGenuine2(t *testing.T) {
	valid := "send [USD 1] (\n  source = @a\n  destination = @b\n)\n// done"

	// control: same script, with a final newline
	if n := analysis.CheckSource(valid + "\n").GetErrorsCount(); n != 0 {
		t.Fatalf("control script should be valid, got %d errors", n)
	}

	res := analysis.CheckSource(valid)
	for _, d := range res.Diagnostics {
		if d.Kind.Severity() == analysis.ErrorSeverity {
			t.Errorf("error-severity diagnostic on a valid script: %T %q at %d:%d",
				d.Kind, d.Kind.Message(), d.Range.Start.Line, d.Range.Start.Character)
		}
	}
}
