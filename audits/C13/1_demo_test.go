// copy to: internal/interpreter
//
// Property C13: a portion text of the literal grammar with value in [0,1]
// denotes exactly that base-ten fraction as a literal, and "the same text passed
// as a portion variable denotes the same number".
//
// Text used: 0.<1,000,000 zeros>1%  (PERCENTAGE_PORTION_LITERAL, 1,000,001 fractional
// digits, value 10^-1000003, which is inside [0,1]).
// As a literal it is accepted and is exact; as a portion variable (and therefore also as
// a metadata-backed portion variable) it is rejected with
// "Bad portion: invalid percent format", because ParsePortionSpecific delegates to
// big.Rat.SetString, which refuses decimal exponents above 1e6.
package interpreter_test

import (
	"context"
	"math/big"
	"strings"
	"testing"

	"github.com/formancehq/numscript/internal/interpreter"
	"github.com/formancehq/numscript/internal/parser"
)

func TestGenuine1(t *testing.T) {
	const fractionalDigits = 1_000_001
	text := "0." + strings.Repeat("0", fractionalDigits-1) + "1%"

	// independent big-rational arithmetic: 1 / 10^(fractionalDigits+2)
	want := new(big.Rat).SetFrac(
		big.NewInt(1),
		new(big.Int).Exp(big.NewInt(10), big.NewInt(fractionalDigits+2), nil),
	)

	run := func(script string, vars map[string]string) (*big.Rat, error) {
		p := parser.Parse(script)
		if len(p.Errors) != 0 {
			t.Fatalf("unexpected parse errors: %v", p.Errors[0].Msg)
		}
		res, err := interpreter.RunProgram(context.Background(), p.Value, vars, interpreter.StaticStore{}, nil)
		if err != nil {
			return nil, err
		}
		portion, ok := res.Metadata["k"].(interpreter.Portion)
		if !ok {
			t.Fatalf("not a portion: %#v", res.Metadata["k"])
		}
		r := big.Rat(portion)
		return &r, nil
	}

	// 1) the literal
	lit, err := run(`set_tx_meta("k", `+text+`)`, nil)
	if err != nil {
		t.Fatalf("the literal is rejected: %v", err)
	}
	if lit.Cmp(want) != 0 {
		t.Fatalf("the literal does not denote 10^-%d", fractionalDigits+2)
	}

	// 2) the same text as a portion variable must denote the same number
	v, err := run(`vars { portion $p }
set_tx_meta("k", $p)`, map[string]string{"p": text})
	if err != nil {
		t.Fatalf("literal accepted (exact value), but the same text as a portion variable is rejected: %v", err)
	}
	if v.Cmp(lit) != 0 {
		t.Fatalf("the same text denotes different numbers as a literal and as a variable")
	}
}
