// copy to: internal/lsp
//
// C19 counterexample 5 (low confidence, see findings.md): a didChange notification whose
// contentChanges array is empty makes the handler index the array at -1: the server process
// dies, no request on any document is answered any more.
package lsp_test

import (
	"encoding/json"
	"fmt"
	"os"
	"strings"
	"testing"

	lsp "github.com/formancehq/numscript/internal/lsp"
	"github.com/sourcegraph/jsonrpc2"
)

type genuine5Range struct {
	Start struct{ Line, Character int } `json:"start"`
	End   struct{ Line, Character int } `json:"end"`
}

type genuine5Hover struct {
	Contents struct {
		Value string `json:"value"`
	} `json:"contents"`
	Range genuine5Range `json:"range"`
}

type genuine5Location struct {
	URI   string        `json:"uri"`
	Range genuine5Range `json:"range"`
}

// calls the server's handler exactly like RunServer does and returns the JSON of the result
func genuine5Call(state *lsp.State, method string, params any) string {
	// (publishDiagnostics is printed on stdout/stderr: keep the test output clean)
	devnull, _ := os.OpenFile(os.DevNull, os.O_WRONLY, 0)
	oldOut, oldErr := os.Stdout, os.Stderr
	os.Stdout, os.Stderr = devnull, devnull
	defer func() { os.Stdout, os.Stderr = oldOut, oldErr; devnull.Close() }()

	bytes, _ := json.Marshal(params)
	raw := json.RawMessage(bytes)
	res := lsp.Handle(jsonrpc2.Request{Method: method, Params: &raw}, state)
	out, _ := json.Marshal(res)
	return string(out)
}

func TestGenuine5(t *testing.T) {
	type M = map[string]any
	lines := []string{
		"vars { account $x }",
		`set_tx_meta("k", $x)`,
	}
	text := strings.Join(lines, "\n")
	const uri = "file:///genuine5.num"

	state := lsp.InitialState()
	genuine5Call(&state, "textDocument/didOpen", M{"textDocument": M{"uri": uri, "languageId": "numscript", "version": 1, "text": text}})

	// a change notification that carries no content change: schema-valid
	// (contentChanges: TextDocumentContentChangeEvent[]), the text stays what it was
	func() {
		defer func() {
			if r := recover(); r != nil {
				t.Errorf("the server crashed on a didChange notification with an empty list of changes: %v", r)
			}
		}()
		genuine5Call(&state, "textDocument/didChange", M{"textDocument": M{"uri": uri, "version": 2}, "contentChanges": []M{}})
	}()

	// the answers still come from the latest text
	useLine := 1
	useStart := strings.Index(lines[useLine], "$x")
	pos := M{"textDocument": M{"uri": uri}, "position": M{"line": useLine, "character": useStart}}
	var hover *genuine5Hover
	if err := json.Unmarshal([]byte(genuine5Call(&state, "textDocument/hover", pos)), &hover); err != nil {
		t.Fatal(err)
	}
	if hover == nil || hover.Contents.Value != "```numscript\n$x: account\n```" {
		t.Errorf("hover after the empty change: got %v", hover)
	}
	var loc *genuine5Location
	if err := json.Unmarshal([]byte(genuine5Call(&state, "textDocument/definition", pos)), &loc); err != nil {
		t.Fatal(err)
	}
	if loc == nil || fmt.Sprint(loc.Range) != "{{0 15} {0 17}}" {
		t.Errorf("definition after the empty change: got %v", loc)
	}
}
