// copy to: internal/lsp
//
// C19 counterexample 4: a document whose lines end with a lone carriage return (an end-of-line
// sequence for LSP, plain white space for the lexer). The server sees one single line, so
// nothing is found at the (line, character) positions a client sends.
package lsp_test

import (
	"encoding/json"
	"fmt"
	"os"
	"strings"
	"testing"

	"github.com/formancehq/numscript/internal/analysis"
	lsp "github.com/formancehq/numscript/internal/lsp"
	"github.com/sourcegraph/jsonrpc2"
)

type genuine4Range struct {
	Start struct{ Line, Character int } `json:"start"`
	End   struct{ Line, Character int } `json:"end"`
}

type genuine4Hover struct {
	Contents struct {
		Value string `json:"value"`
	} `json:"contents"`
	Range genuine4Range `json:"range"`
}

type genuine4Location struct {
	URI   string        `json:"uri"`
	Range genuine4Range `json:"range"`
}

// calls the server's handler exactly like RunServer does and returns the JSON of the result
func genuine4Call(state *lsp.State, method string, params any) string {
	// (publishDiagnostics is printed on stdout/stderr: keep the test output clean)
	devnull, _ := os.OpenFile(os.DevNull, os.O_WRONLY, 0)
	oldOut, oldErr := os.Stdout, os.Stderr
	os.Stdout, os.Stderr = devnull, devnull
	defer func() { os.Stdout, os.Stderr = oldOut, oldErr; devnull.Close() }()

	bytes, _ := json.Marshal(params)
	raw := json.RawMessage(bytes)
	res := lsp.Handle(jsonrpc2.Request{Method: method, Params: &raw}, state)
	out, _ := json.Marshal(res)
	return string(out)
}

func TestGenuine4(t *testing.T) {
	type M = map[string]any
	lines := []string{
		"vars { account $x }",
		`set_tx_meta("k", $x)`,
	}
	// LSP: "\n", "\r\n" and "\r" are all end-of-line sequences
	text := strings.Join(lines, "\r")
	const uri = "file:///genuine4.num"

	// precondition: the script is valid, the checker has nothing to say about it
	if diags := analysis.CheckSource(text).Diagnostics; len(diags) != 0 {
		t.Fatalf("precondition: unexpected diagnostics %v", diags)
	}

	state := lsp.InitialState()
	genuine4Call(&state, "textDocument/didOpen", M{"textDocument": M{"uri": uri, "languageId": "numscript", "version": 1, "text": text}})

	useLine := 1
	useStart := strings.Index(lines[useLine], "$x")
	declLine := 0
	declStart := strings.Index(lines[declLine], "$x")

	// every position inside the use "$x"
	for col := useStart; col < useStart+len("$x"); col++ {
		pos := M{"textDocument": M{"uri": uri}, "position": M{"line": useLine, "character": col}}

		var hover *genuine4Hover
		if err := json.Unmarshal([]byte(genuine4Call(&state, "textDocument/hover", pos)), &hover); err != nil {
			t.Fatal(err)
		}
		if hover == nil {
			t.Errorf("hover at %d:%d (inside the use of $x): got nothing", useLine, col)
		} else {
			want := "```numscript\n$x: account\n```"
			if hover.Contents.Value != want {
				t.Errorf("hover at %d:%d: got %q, want %q", useLine, col, hover.Contents.Value, want)
			}
			gotRange := fmt.Sprint(hover.Range)
			wantRange := fmt.Sprintf("{{%d %d} {%d %d}}", useLine, useStart, useLine, useStart+2)
			if gotRange != wantRange {
				t.Errorf("hover range at %d:%d: got %s, want %s", useLine, col, gotRange, wantRange)
			}
		}

		var loc *genuine4Location
		if err := json.Unmarshal([]byte(genuine4Call(&state, "textDocument/definition", pos)), &loc); err != nil {
			t.Fatal(err)
		}
		if loc == nil {
			t.Errorf("definition at %d:%d (inside the use of $x): got nothing", useLine, col)
		} else {
			gotRange := fmt.Sprint(loc.Range)
			wantRange := fmt.Sprintf("{{%d %d} {%d %d}}", declLine, declStart, declLine, declStart+2)
			if gotRange != wantRange || loc.URI != uri {
				t.Errorf("definition at %d:%d: got %s in %s, want %s in %s", useLine, col, gotRange, loc.URI, wantRange, uri)
			}
		}
	}
}
