// copy to: internal/lsp
//
// C19 counterexample 3: the server counts columns in code points, LSP positions count UTF-16
// code units. After characters outside the BMP (here an emoji in a string literal) on the same
// line, the variable is not found where the client says it is, and is "found" inside the string.
package lsp_test

import (
	"encoding/json"
	"fmt"
	"os"
	"strings"
	"testing"
	"unicode/utf16"

	"github.com/formancehq/numscript/internal/analysis"
	lsp "github.com/formancehq/numscript/internal/lsp"
	"github.com/sourcegraph/jsonrpc2"
)

type genuine3Range struct {
	Start struct{ Line, Character int } `json:"start"`
	End   struct{ Line, Character int } `json:"end"`
}

type genuine3Hover struct {
	Contents struct {
		Value string `json:"value"`
	} `json:"contents"`
	Range genuine3Range `json:"range"`
}

type genuine3Location struct {
	URI   string        `json:"uri"`
	Range genuine3Range `json:"range"`
}

// calls the server's handler exactly like RunServer does and returns the JSON of the result
func genuine3Call(state *lsp.State, method string, params any) string {
	// (publishDiagnostics is printed on stdout/stderr: keep the test output clean)
	devnull, _ := os.OpenFile(os.DevNull, os.O_WRONLY, 0)
	oldOut, oldErr := os.Stdout, os.Stderr
	os.Stdout, os.Stderr = devnull, devnull
	defer func() { os.Stdout, os.Stderr = oldOut, oldErr; devnull.Close() }()

	bytes, _ := json.Marshal(params)
	raw := json.RawMessage(bytes)
	res := lsp.Handle(jsonrpc2.Request{Method: method, Params: &raw}, state)
	out, _ := json.Marshal(res)
	return string(out)
}

// LSP positions count UTF-16 code units (the server does not negotiate another positionEncoding)
func genuine3Utf16Len(s string) int {
	return len(utf16.Encode([]rune(s)))
}

func TestGenuine3(t *testing.T) {
	type M = map[string]any
	lines := []string{
		"vars { account $x }",
		"set_tx_meta(\"\U0001F600\U0001F600\U0001F600\", $x)",
	}
	text := strings.Join(lines, "\n")
	const uri = "file:///genuine3.num"

	// precondition: the script is valid, the checker has nothing to say about it
	if diags := analysis.CheckSource(text).Diagnostics; len(diags) != 0 {
		t.Fatalf("precondition: unexpected diagnostics %v", diags)
	}

	state := lsp.InitialState()
	genuine3Call(&state, "textDocument/didOpen", M{"textDocument": M{"uri": uri, "languageId": "numscript", "version": 1, "text": text}})

	useLine := 1
	useStart := genuine3Utf16Len(lines[useLine][:strings.Index(lines[useLine], "$x")])
	declLine := 0
	declStart := genuine3Utf16Len(lines[declLine][:strings.Index(lines[declLine], "$x")])

	// every position inside the use "$x"
	for col := useStart; col < useStart+len("$x"); col++ {
		pos := M{"textDocument": M{"uri": uri}, "position": M{"line": useLine, "character": col}}

		var hover *genuine3Hover
		if err := json.Unmarshal([]byte(genuine3Call(&state, "textDocument/hover", pos)), &hover); err != nil {
			t.Fatal(err)
		}
		if hover == nil {
			t.Errorf("hover at %d:%d (inside the use of $x): got nothing", useLine, col)
		} else {
			want := "```numscript\n$x: account\n```"
			if hover.Contents.Value != want {
				t.Errorf("hover at %d:%d: got %q, want %q", useLine, col, hover.Contents.Value, want)
			}
			gotRange := fmt.Sprint(hover.Range)
			wantRange := fmt.Sprintf("{{%d %d} {%d %d}}", useLine, useStart, useLine, useStart+2)
			if gotRange != wantRange {
				t.Errorf("hover range at %d:%d: got %s, want %s", useLine, col, gotRange, wantRange)
			}
		}

		var loc *genuine3Location
		if err := json.Unmarshal([]byte(genuine3Call(&state, "textDocument/definition", pos)), &loc); err != nil {
			t.Fatal(err)
		}
		if loc == nil {
			t.Errorf("definition at %d:%d (inside the use of $x): got nothing", useLine, col)
		} else {
			gotRange := fmt.Sprint(loc.Range)
			wantRange := fmt.Sprintf("{{%d %d} {%d %d}}", declLine, declStart, declLine, declStart+2)
			if gotRange != wantRange || loc.URI != uri {
				t.Errorf("definition at %d:%d: got %s in %s, want %s in %s", useLine, col, gotRange, loc.URI, wantRange, uri)
			}
		}
	}

	// every position strictly inside the string literal is not on a variable: nothing to show
	strStart := genuine3Utf16Len(lines[useLine][:strings.Index(lines[useLine], "\"")])
	strEnd := genuine3Utf16Len(lines[useLine][:strings.LastIndex(lines[useLine], "\"")])
	for col := strStart + 1; col <= strEnd; col++ {
		pos := M{"textDocument": M{"uri": uri}, "position": M{"line": useLine, "character": col}}
		if got := genuine3Call(&state, "textDocument/hover", pos); got != "null" {
			t.Errorf("hover at %d:%d (inside the string literal): got %s, want nothing", useLine, col, got)
		}
		if got := genuine3Call(&state, "textDocument/definition", pos); got != "null" {
			t.Errorf("definition at %d:%d (inside the string literal): got %s, want nothing", useLine, col, got)
		}
	}
}
