// copy to: internal/lsp
//
// C19 counterexample 2: a declared variable used as a surplus argument of a built-in call
// (one argument too many) is never resolved by the checker: hover and definition yield nothing.
package lsp_test

import (
	"encoding/json"
	"fmt"
	"os"
	"strings"
	"testing"

	lsp "github.com/formancehq/numscript/internal/lsp"
	"github.com/sourcegraph/jsonrpc2"
)

type genuine2Range struct {
	Start struct{ Line, Character int } `json:"start"`
	End   struct{ Line, Character int } `json:"end"`
}

type genuine2Hover struct {
	Contents struct {
		Value string `json:"value"`
	} `json:"contents"`
	Range genuine2Range `json:"range"`
}

type genuine2Location struct {
	URI   string        `json:"uri"`
	Range genuine2Range `json:"range"`
}

// calls the server's handler exactly like RunServer does and returns the JSON of the result
func genuine2Call(state *lsp.State, method string, params any) string {
	// (publishDiagnostics is printed on stdout/stderr: keep the test output clean)
	devnull, _ := os.OpenFile(os.DevNull, os.O_WRONLY, 0)
	oldOut, oldErr := os.Stdout, os.Stderr
	os.Stdout, os.Stderr = devnull, devnull
	defer func() { os.Stdout, os.Stderr = oldOut, oldErr; devnull.Close() }()

	bytes, _ := json.Marshal(params)
	raw := json.RawMessage(bytes)
	res := lsp.Handle(jsonrpc2.Request{Method: method, Params: &raw}, state)
	out, _ := json.Marshal(res)
	return string(out)
}

func TestGenuine2(t *testing.T) {
	type M = map[string]any
	lines := []string{
		"vars { account $x }",
		`set_tx_meta("k", 1, $x)`,
	}
	text := strings.Join(lines, "\n")
	const uri = "file:///genuine2.num"

	state := lsp.InitialState()
	genuine2Call(&state, "textDocument/didOpen", M{"textDocument": M{"uri": uri, "languageId": "numscript", "version": 1, "text": text}})

	useLine := 1
	useStart := strings.Index(lines[useLine], "$x")
	declLine := 0
	declStart := strings.Index(lines[declLine], "$x")

	// every position inside the use "$x" (third argument of the call)
	for col := useStart; col < useStart+len("$x"); col++ {
		pos := M{"textDocument": M{"uri": uri}, "position": M{"line": useLine, "character": col}}

		var hover *genuine2Hover
		if err := json.Unmarshal([]byte(genuine2Call(&state, "textDocument/hover", pos)), &hover); err != nil {
			t.Fatal(err)
		}
		if hover == nil {
			t.Errorf("hover at %d:%d (inside a use of the declared variable $x): got nothing", useLine, col)
		} else {
			want := "```numscript\n$x: account\n```"
			if hover.Contents.Value != want {
				t.Errorf("hover at %d:%d: got %q, want %q", useLine, col, hover.Contents.Value, want)
			}
			gotRange := fmt.Sprint(hover.Range)
			wantRange := fmt.Sprintf("{{%d %d} {%d %d}}", useLine, useStart, useLine, useStart+2)
			if gotRange != wantRange {
				t.Errorf("hover range at %d:%d: got %s, want %s", useLine, col, gotRange, wantRange)
			}
		}

		var loc *genuine2Location
		if err := json.Unmarshal([]byte(genuine2Call(&state, "textDocument/definition", pos)), &loc); err != nil {
			t.Fatal(err)
		}
		if loc == nil {
			t.Errorf("definition at %d:%d (inside a use of the declared variable $x): got nothing", useLine, col)
		} else {
			gotRange := fmt.Sprint(loc.Range)
			wantRange := fmt.Sprintf("{{%d %d} {%d %d}}", declLine, declStart, declLine, declStart+2)
			if gotRange != wantRange || loc.URI != uri {
				t.Errorf("definition at %d:%d: got %s in %s, want %s in %s", useLine, col, gotRange, loc.URI, wantRange, uri)
			}
		}
	}
}
