// copy to: internal/lsp
//
// C19 counterexample 6 (low confidence, see findings.md): the name of a built-in function
// written in the other context (an origin function called as a statement) shows nothing
// on hover, although the checker knows the function ("You cannot use this function here").
package lsp_test

import (
	"encoding/json"
	"os"
	"strings"
	"testing"

	lsp "github.com/formancehq/numscript/internal/lsp"
	"github.com/sourcegraph/jsonrpc2"
)

type genuine6Range struct {
	Start struct{ Line, Character int } `json:"start"`
	End   struct{ Line, Character int } `json:"end"`
}

type genuine6Hover struct {
	Contents struct {
		Value string `json:"value"`
	} `json:"contents"`
	Range genuine6Range `json:"range"`
}

type genuine6Location struct {
	URI   string        `json:"uri"`
	Range genuine6Range `json:"range"`
}

// calls the server's handler exactly like RunServer does and returns the JSON of the result
func genuine6Call(state *lsp.State, method string, params any) string {
	// (publishDiagnostics is printed on stdout/stderr: keep the test output clean)
	devnull, _ := os.OpenFile(os.DevNull, os.O_WRONLY, 0)
	oldOut, oldErr := os.Stdout, os.Stderr
	os.Stdout, os.Stderr = devnull, devnull
	defer func() { os.Stdout, os.Stderr = oldOut, oldErr; devnull.Close() }()

	bytes, _ := json.Marshal(params)
	raw := json.RawMessage(bytes)
	res := lsp.Handle(jsonrpc2.Request{Method: method, Params: &raw}, state)
	out, _ := json.Marshal(res)
	return string(out)
}

func TestGenuine6(t *testing.T) {
	type M = map[string]any
	lines := []string{
		"vars { account $a }",
		`meta($a, "k")`,
	}
	text := strings.Join(lines, "\n")
	const uri = "file:///genuine6.num"

	state := lsp.InitialState()
	genuine6Call(&state, "textDocument/didOpen", M{"textDocument": M{"uri": uri, "languageId": "numscript", "version": 1, "text": text}})

	// every position inside the built-in function name "meta"
	for col := 0; col < len("meta"); col++ {
		pos := M{"textDocument": M{"uri": uri}, "position": M{"line": 1, "character": col}}
		var hover *genuine6Hover
		if err := json.Unmarshal([]byte(genuine6Call(&state, "textDocument/hover", pos)), &hover); err != nil {
			t.Fatal(err)
		}
		if hover == nil {
			t.Errorf("hover at 1:%d (inside the built-in function name meta): got nothing", col)
			continue
		}
		if !strings.Contains(hover.Contents.Value, "meta(account, string)") {
			t.Errorf("hover at 1:%d: got %q, want the signature of meta", col, hover.Contents.Value)
		}
		if hover.Range.Start.Line != 1 || hover.Range.Start.Character != 0 || hover.Range.End.Line != 1 || hover.Range.End.Character != 4 {
			t.Errorf("hover range at 1:%d: got %v, want the range of the name", col, hover.Range)
		}
	}
}
