// copy to: internal/lsp
//
// C19 counterexample 1: two variable uses with nothing between them ("$a$b", legal:
// the grammar needs no separator before '$'). Hovering / go-to-definition on the FIRST
// character of the second use answers for the first variable.
package lsp_test

import (
	"encoding/json"
	"fmt"
	"os"
	"strings"
	"testing"

	"github.com/formancehq/numscript/internal/analysis"
	lsp "github.com/formancehq/numscript/internal/lsp"
	"github.com/sourcegraph/jsonrpc2"
)

type genuine1Range struct {
	Start struct{ Line, Character int } `json:"start"`
	End   struct{ Line, Character int } `json:"end"`
}

type genuine1Hover struct {
	Contents struct {
		Value string `json:"value"`
	} `json:"contents"`
	Range genuine1Range `json:"range"`
}

type genuine1Location struct {
	URI   string        `json:"uri"`
	Range genuine1Range `json:"range"`
}

// calls the server's handler exactly like RunServer does and returns the JSON of the result
func genuine1Call(state *lsp.State, method string, params any) string {
	// (publishDiagnostics is printed on stdout/stderr: keep the test output clean)
	devnull, _ := os.OpenFile(os.DevNull, os.O_WRONLY, 0)
	oldOut, oldErr := os.Stdout, os.Stderr
	os.Stdout, os.Stderr = devnull, devnull
	defer func() { os.Stdout, os.Stderr = oldOut, oldErr; devnull.Close() }()

	bytes, _ := json.Marshal(params)
	raw := json.RawMessage(bytes)
	res := lsp.Handle(jsonrpc2.Request{Method: method, Params: &raw}, state)
	out, _ := json.Marshal(res)
	return string(out)
}

func TestGenuine1(t *testing.T) {
	type M = map[string]any
	lines := []string{
		"vars {",
		"  account $a",
		"  account $b",
		"}",
		"send [COIN 10] (",
		"  source = {$a$b}",
		"  destination = @dest",
		")",
	}
	text := strings.Join(lines, "\n")
	const uri = "file:///genuine1.num"

	state := lsp.InitialState()
	genuine1Call(&state, "textDocument/didOpen", M{"textDocument": M{"uri": uri, "languageId": "numscript", "version": 1, "text": text}})

	// precondition: the script is valid, the checker has nothing to say about it
	if diags := analysis.CheckSource(text).Diagnostics; len(diags) != 0 {
		t.Fatalf("precondition: unexpected diagnostics %v", diags)
	}

	useLine := 5
	useStart := strings.Index(lines[useLine], "$b")
	declLine := 2
	declStart := strings.Index(lines[declLine], "$b")

	// every position inside the use "$b": its first and its second character
	for col := useStart; col < useStart+len("$b"); col++ {
		pos := M{"textDocument": M{"uri": uri}, "position": M{"line": useLine, "character": col}}

		var hover *genuine1Hover
		if err := json.Unmarshal([]byte(genuine1Call(&state, "textDocument/hover", pos)), &hover); err != nil {
			t.Fatal(err)
		}
		if hover == nil {
			t.Errorf("hover at %d:%d (inside the use of $b): got nothing", useLine, col)
		} else {
			want := "```numscript\n$b: account\n```"
			if hover.Contents.Value != want {
				t.Errorf("hover at %d:%d (inside the use of $b): got %q, want %q", useLine, col, hover.Contents.Value, want)
			}
			gotRange := fmt.Sprint(hover.Range)
			wantRange := fmt.Sprintf("{{%d %d} {%d %d}}", useLine, useStart, useLine, useStart+2)
			if gotRange != wantRange {
				t.Errorf("hover range at %d:%d: got %s, want %s", useLine, col, gotRange, wantRange)
			}
		}

		var loc *genuine1Location
		if err := json.Unmarshal([]byte(genuine1Call(&state, "textDocument/definition", pos)), &loc); err != nil {
			t.Fatal(err)
		}
		if loc == nil {
			t.Errorf("definition at %d:%d (inside the use of $b): got nothing", useLine, col)
		} else {
			gotRange := fmt.Sprint(loc.Range)
			wantRange := fmt.Sprintf("{{%d %d} {%d %d}}", declLine, declStart, declLine, declStart+2)
			if gotRange != wantRange || loc.URI != uri {
				t.Errorf("definition at %d:%d: got %s in %s, want the declaration of $b %s in %s", useLine, col, gotRange, loc.URI, wantRange, uri)
			}
		}
	}
}
