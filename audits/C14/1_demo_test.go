// copy to: internal/parser
package parser_test

// Property C14: "Parsing terminates without panicking for every input string;
// every syntactically valid script is accepted with zero errors".
//
// The input below is a syntactically valid script (one function call whose
// argument is a monetary literal nested 1,200,000 levels deep, about 4.8 MB).
// Parse() does not return for it: the recursive-descent parser (and the
// recursive tree conversion after it) recurse once per nesting level, the
// goroutine stack passes Go's 1 GB limit and the runtime aborts the whole
// process with "fatal error: stack overflow" (which cannot be recovered).
//
// Because the failure kills the process, Parse is called in a child process
// (this same test binary, re-executed); the parent asserts the property:
// the call must return, with zero errors.

import (
	"fmt"
	"os"
	"os/exec"
	"strings"
	"testing"

	"github.com/formancehq/numscript/internal/parser"
)

const genuine1Depth = 1200000

func genuine1Input() string {
	return "set_tx_meta(\"k\", " +
		strings.Repeat("[", genuine1Depth) + "COIN" + strings.Repeat(" 1]", genuine1Depth) +
		")\n"
}

func TestGenuine1(t *testing.T) {
	if os.Getenv("C14_GENUINE1_CHILD") == "1" {
		src := genuine1Input()
		res := parser.Parse(src)
		_ = parser.ParseErrorsToString(res.Errors, src)
		fmt.Printf("PARSE_RETURNED errors=%d\n", len(res.Errors))
		return
	}

	// sanity: the same shape at a small depth is a valid script (zero errors)
	small := "set_tx_meta(\"k\", " + strings.Repeat("[", 50) + "COIN" + strings.Repeat(" 1]", 50) + ")\n"
	if res := parser.Parse(small); len(res.Errors) != 0 {
		t.Fatalf("the small instance should be a valid script, got %v", res.Errors)
	}

	cmd := exec.Command(os.Args[0], "-test.run=^TestGenuine1$", "-test.timeout=20m")
	cmd.Env = append(os.Environ(), "C14_GENUINE1_CHILD=1")
	out, err := cmd.CombinedOutput()
	text := string(out)
	if len(text) > 600 {
		text = text[:600] + "..."
	}
	if err != nil {
		t.Fatalf("Parse crashed the process on a valid %d-byte script (%v); output starts with:\n%s",
			len(genuine1Input()), err, text)
	}
	if !strings.Contains(string(out), "PARSE_RETURNED errors=0") {
		t.Fatalf("valid script was not accepted with zero errors; child output:\n%s", text)
	}
}
