// copy to: internal/parser
//
// Property C15: inserting a comment between two tokens never changes the
// parsed tree. Counterexample: a block or line comment written DIRECTLY after a
// token that ends in one of the ASSET characters [A-Z0-9/] (an asset, a number,
// a ratio) is not recognised as a comment: "100/* c */" lexes as ASSET "100/",
// '*', ... and "USD//\n" lexes as ASSET "USD//".
package parser_test

import (
	"encoding/json"
	"strings"
	"testing"

	"github.com/formancehq/numscript/internal/parser"
)

// genuine1Shape renders the parsed program without any position information
// (the embedded Range fields show up as the JSON keys "Start" and "End").
func genuine1Shape(t *testing.T, p parser.Program) string {
	raw, err := json.Marshal(p)
	if err != nil {
		t.Fatal(err)
	}
	var v interface{}
	if err := json.Unmarshal(raw, &v); err != nil {
		t.Fatal(err)
	}
	var strip func(v interface{})
	strip = func(v interface{}) {
		switch v := v.(type) {
		case map[string]interface{}:
			delete(v, "Start")
			delete(v, "End")
			for _, x := range v {
				strip(x)
			}
		case []interface{}:
			for _, x := range v {
				strip(x)
			}
		}
	}
	strip(v)
	out, _ := json.Marshal(v)
	return string(out)
}

func TestGenuine1(t *testing.T) {
	tokens := []string{
		"send", "[", "USD/2", "100", "]", "(",
		"source", "=", "{", "1/2", "from", "@a", "remaining", "from", "@b", "}",
		"destination", "=", "@c",
		")",
	}
	base := strings.Join(tokens, " ")
	baseRes := parser.Parse(base)
	if len(baseRes.Errors) != 0 {
		t.Fatalf("the base script must be well-formed: %v", baseRes.Errors)
	}
	want := genuine1Shape(t, baseRes.Value)

	// a comment is inserted between token i and token i+1, right after token i
	// (the original single space still follows the comment)
	for _, comment := range []string{"/* c */", "//\n", "// C1\n"} {
		for i := 0; i+1 < len(tokens); i++ {
			src := strings.Join(tokens[:i+1], " ") + comment + " " + strings.Join(tokens[i+1:], " ")
			res := parser.Parse(src)
			if len(res.Errors) != 0 {
				t.Errorf("comment %q after token %q: the script no longer parses: %s\n  script: %q",
					comment, tokens[i], res.Errors[0].Msg, src)
				continue
			}
			if got := genuine1Shape(t, res.Value); got != want {
				t.Errorf("comment %q after token %q silently changes the tree\n  script: %q\n  want %s\n  got  %s",
					comment, tokens[i], src, want, got)
			}
		}
	}
}
