// copy to: internal/parser
//
// Property C15: inserting a comment after/between the tokens of a well-formed
// script never changes the parsed tree. Counterexample: a line comment on the
// last line of a script that does not end with a newline is not recognised as a
// comment (LINE_COMMENT requires a terminating NEWLINE; end of input is not
// accepted), so "//" is lexed as an ASSET and the words of the comment are
// parsed as statements.
package parser_test

import (
	"reflect"
	"testing"

	"github.com/formancehq/numscript/internal/parser"
)

func TestGenuine2(t *testing.T) {
	base := "send [USD/2 100] (\n  source = @a\n  destination = @b\n)"
	baseRes := parser.Parse(base)
	if len(baseRes.Errors) != 0 {
		t.Fatalf("the base script must be well-formed: %v", baseRes.Errors)
	}

	for _, comment := range []string{" // done", "\n// done", ` // set_tx_meta("k", 1)`} {
		// sanity: with a final newline the comment is a comment
		withNl := parser.Parse(base + comment + "\n")
		if len(withNl.Errors) != 0 || !reflect.DeepEqual(withNl.Value, baseRes.Value) {
			t.Fatalf("unexpected: comment %q followed by a newline changes the parse", comment)
		}

		// the same comment as the very last thing in the file
		res := parser.Parse(base + comment)
		if len(res.Errors) != 0 {
			t.Errorf("trailing comment %q (no final newline): the script no longer parses: %s", comment, res.Errors[0].Msg)
		}
		// all the tokens precede the comment, so even the ranges must be identical
		if !reflect.DeepEqual(res.Value, baseRes.Value) {
			t.Errorf("trailing comment %q (no final newline) changes the tree: %d statements instead of %d",
				comment, len(res.Value.Statements), len(baseRes.Value.Statements))
		}
	}
}
