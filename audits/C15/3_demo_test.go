// copy to: internal/parser
//
// Property C15: inserting comments between the tokens of a well-formed script
// never changes the parsed tree. Counterexample: the block comment
// "/* a /* b */" is accepted as a complete comment when it is the only comment
// of the script, but where it ends depends on text arbitrarily far behind it:
// as soon as any later block comment follows, MULTILINE_COMMENT (which nests)
// extends up to the "*/" of that later comment, and every statement in between
// silently disappears (no error is reported).
package parser_test

import (
	"testing"

	"github.com/formancehq/numscript/internal/parser"
)

func TestGenuine3(t *testing.T) {
	stmt := `send [USD/2 100] (source = @a destination = @b)`
	first := "/* a /* b */"
	second := "/* c */"

	count := func(src string) int {
		res := parser.Parse(src)
		if len(res.Errors) != 0 {
			t.Errorf("%q: unexpected parse error: %s", src, res.Errors[0].Msg)
		}
		return len(res.Value.Statements)
	}

	if n := count(stmt); n != 1 {
		t.Fatalf("base script: %d statements", n)
	}
	// each comment alone is a comment: the statement is still there
	if n := count(first + " " + stmt); n != 1 {
		t.Fatalf("comment %q before the statement: %d statements", first, n)
	}
	if n := count(stmt + " " + second); n != 1 {
		t.Fatalf("comment %q after the statement: %d statements", second, n)
	}
	// both comments inserted: still the same single statement is required
	if n := count(first + " " + stmt + " " + second); n != 1 {
		t.Errorf("comments %q before and %q after the statement: the tree has %d statements instead of 1 (and no error is reported)", first, second, n)
	}
}
