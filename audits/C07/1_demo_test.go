// copy to: /tmp/hunt/C07 (repository root, package numscript_test)
package numscript_test

import (
	"context"
	"fmt"
	"math/big"
	"testing"

	"github.com/formancehq/numscript"
)

// Property C07: within one send, the net flow between every source and every
// destination equals the in-order pairing of the draw list with the distribution
// list; only units routed to the `kept` keyword may be withheld.
//
// The script below contains NO `kept` clause. Its destination account is given
// through an `account` variable. The pairing depends only on the two amount
// sequences, never on what the accounts are called, so renaming the destination
// account must only rename the destination of the postings.
// On the unchanged tree, when the account is called "<kept>" (the name the
// interpreter uses internally for its kept pseudo-receiver), the units meant for
// that account silently vanish: no posting, no error.
func TestGenuine1(t *testing.T) {
	const script = `vars { account $d }
send [USD 10] (
	source = { @a @b }
	destination = {
		max [USD 4] to $d
		remaining to @x
	}
)`

	run := func(dest string) map[string]*big.Int {
		parsed := numscript.Parse(script)
		if errs := parsed.GetParsingErrors(); len(errs) != 0 {
			t.Fatalf("unexpected parsing errors: %v", errs)
		}
		res, err := parsed.Run(context.Background(),
			numscript.VariablesMap{"d": dest},
			numscript.StaticStore{Balances: numscript.Balances{
				"a": {"USD": big.NewInt(5)},
				"b": {"USD": big.NewInt(5)},
			}},
		)
		if err != nil {
			t.Fatalf("unexpected error for destination %q: %v", dest, err)
		}
		// net flow per (source, destination), the destination under test renamed to "D"
		flows := map[string]*big.Int{}
		for _, p := range res.Postings {
			d := p.Destination
			if d == dest {
				d = "D"
			}
			k := fmt.Sprintf("%s -> %s", p.Source, d)
			if flows[k] == nil {
				flows[k] = new(big.Int)
			}
			flows[k].Add(flows[k], p.Amount)
		}
		return flows
	}

	// In-order pairing of draws (a:5, b:5) with shares (D:4, x:6):
	//   a -> D 4, a -> x 1, b -> x 5
	reference := run("some:account")
	got := run("<kept>")

	total := new(big.Int)
	for _, v := range got {
		total.Add(total, v)
	}
	if total.Cmp(big.NewInt(10)) != 0 {
		t.Errorf("the send has no `kept` clause, so all 10 units must be posted; posted %s (flows: %v)", total, got)
	}
	if fmt.Sprint(got) != fmt.Sprint(reference) {
		t.Errorf("net flows depend on the NAME of the destination account:\n  with \"some:account\": %v\n  with \"<kept>\":       %v", reference, got)
	}
}
