// copy to: internal/lsp
//
// C19 / finding 1: the server loop (RunServer) answers every incoming message,
// notifications included, with a response `{"id":0,"result":null}`.
// A client whose hover request carries id 0 (a legal JSON-RPC / LSP id) therefore
// receives, as the first response with its id, the `null` that was produced for the
// preceding didOpen notification - i.e. "nothing here" - although the position is
// inside a use of a declared variable.
package lsp

import (
	"bufio"
	"encoding/json"
	"fmt"
	"io"
	"os"
	"strconv"
	"strings"
	"testing"
	"time"

	"github.com/formancehq/numscript/internal/analysis"
)

func genuine1Frame(v any) []byte {
	b, err := json.Marshal(v)
	if err != nil {
		panic(err)
	}
	return []byte(fmt.Sprintf("Content-Length: %d\r\n\r\n%s", len(b), b))
}

func genuine1ReadFrame(r *bufio.Reader) (map[string]json.RawMessage, error) {
	length := -1
	for {
		line, err := r.ReadString('\n')
		if err != nil {
			return nil, err
		}
		line = strings.TrimRight(line, "\r\n")
		if line == "" {
			break
		}
		if k, v, ok := strings.Cut(line, ":"); ok && strings.EqualFold(strings.TrimSpace(k), "Content-Length") {
			length, err = strconv.Atoi(strings.TrimSpace(v))
			if err != nil {
				return nil, err
			}
		}
	}
	if length < 0 {
		return nil, fmt.Errorf("no Content-Length header")
	}
	body := make([]byte, length)
	if _, err := io.ReadFull(r, body); err != nil {
		return nil, err
	}
	var msg map[string]json.RawMessage
	if err := json.Unmarshal(body, &msg); err != nil {
		return nil, err
	}
	return msg, nil
}

func TestGenuine1(t *testing.T) {
	const uri = "file:///a.num"
	const text = "vars { account $a }\nsend [USD 1] (source = $a destination = @b)"
	// the cursor is in the middle of the use of $a in the source (line 1, columns 23..25)
	position := Position{Line: 1, Character: 24}

	// What a fresh analysis of the latest text of that document answers
	fresh := InitialState()
	fresh.documents[uri] = InMemoryDocument{Text: text, CheckResult: analysis.CheckSource(text)}
	expected := fresh.handleHover(HoverParams{TextDocumentPositionParams: TextDocumentPositionParams{
		TextDocument: TextDocumentIdentifier{URI: uri},
		Position:     position,
	}})
	if expected == nil || !strings.Contains(expected.Contents.Value, "$a: account") {
		t.Fatalf("precondition: the fresh analysis must identify $a: account, got %#v", expected)
	}
	expectedJson, _ := json.Marshal(expected)

	// Run the real server loop on pipes
	stdinR, stdinW, _ := os.Pipe()
	stdoutR, stdoutW, _ := os.Pipe()
	devnull, _ := os.OpenFile(os.DevNull, os.O_WRONLY, 0)
	oldIn, oldOut, oldErr := os.Stdin, os.Stdout, os.Stderr
	os.Stdin, os.Stdout, os.Stderr = stdinR, stdoutW, devnull
	defer func() { os.Stdin, os.Stdout, os.Stderr = oldIn, oldOut, oldErr }()

	// (stdin is never closed: on EOF the server calls os.Exit)
	go RunServer(ServerArgs[State]{InitialState: InitialState(), Handler: Handle})

	// A well-formed history: one open notification, then one hover request (whose id is 0)
	stdinW.Write(genuine1Frame(map[string]any{
		"jsonrpc": "2.0",
		"method":  "textDocument/didOpen",
		"params": map[string]any{"textDocument": map[string]any{
			"uri": uri, "languageId": "numscript", "version": 1, "text": text,
		}},
	}))
	stdinW.Write(genuine1Frame(map[string]any{
		"jsonrpc": "2.0",
		"id":      0,
		"method":  "textDocument/hover",
		"params": map[string]any{
			"textDocument": map[string]any{"uri": uri},
			"position":     map[string]any{"line": position.Line, "character": position.Character},
		},
	}))

	type outcome struct {
		result string
		err    error
	}
	done := make(chan outcome, 1)
	go func() {
		reader := bufio.NewReader(stdoutR)
		for {
			msg, err := genuine1ReadFrame(reader)
			if err != nil {
				done <- outcome{err: err}
				return
			}
			if _, isNotification := msg["method"]; isNotification {
				continue // publishDiagnostics
			}
			// The first response: only one request was sent, so it has to be its answer
			if id := string(msg["id"]); id != "0" {
				done <- outcome{err: fmt.Errorf("response with the id %s, but no such request was sent", id)}
				return
			}
			done <- outcome{result: string(msg["result"])}
			return
		}
	}()

	select {
	case got := <-done:
		os.Stdin, os.Stdout, os.Stderr = oldIn, oldOut, oldErr
		if got.err != nil {
			t.Fatal(got.err)
		}
		if got.result != string(expectedJson) {
			t.Fatalf("the response to the hover request (id 0) inside the use of $a\n  is:       %s\n  expected: %s\n(the server has answered the didOpen notification with a response carrying the id 0)",
				got.result, expectedJson)
		}
	case <-time.After(10 * time.Second):
		os.Stdin, os.Stdout, os.Stderr = oldIn, oldOut, oldErr
		t.Fatal("no response from the server")
	}
}
