// copy to: internal/lsp
//
// C19 / finding 2 (low confidence, see findings.md): a request whose id is a negative
// integer (LSP: "id: integer | string", integer = -2^31 .. 2^31-1) is answered with a
// response carrying another id (-1 becomes 18446744073709551615): the request id is
// converted to an unsigned number on the way in and copied to the response by RunServer.
// The client never receives an answer to its hover request.
package lsp

import (
	"bufio"
	"encoding/json"
	"fmt"
	"io"
	"os"
	"strconv"
	"strings"
	"testing"
	"time"

	"github.com/formancehq/numscript/internal/analysis"
)

func genuine2Frame(v any) []byte {
	b, err := json.Marshal(v)
	if err != nil {
		panic(err)
	}
	return []byte(fmt.Sprintf("Content-Length: %d\r\n\r\n%s", len(b), b))
}

func genuine2ReadFrame(r *bufio.Reader) (map[string]json.RawMessage, error) {
	length := -1
	for {
		line, err := r.ReadString('\n')
		if err != nil {
			return nil, err
		}
		line = strings.TrimRight(line, "\r\n")
		if line == "" {
			break
		}
		if k, v, ok := strings.Cut(line, ":"); ok && strings.EqualFold(strings.TrimSpace(k), "Content-Length") {
			length, err = strconv.Atoi(strings.TrimSpace(v))
			if err != nil {
				return nil, err
			}
		}
	}
	if length < 0 {
		return nil, fmt.Errorf("no Content-Length header")
	}
	body := make([]byte, length)
	if _, err := io.ReadFull(r, body); err != nil {
		return nil, err
	}
	var msg map[string]json.RawMessage
	if err := json.Unmarshal(body, &msg); err != nil {
		return nil, err
	}
	return msg, nil
}

func TestGenuine2(t *testing.T) {
	const uri = "file:///a.num"
	const text = "vars { account $a }\nsend [USD 1] (source = $a destination = @b)"
	// the cursor is in the middle of the use of $a in the source (line 1, columns 23..25)
	position := Position{Line: 1, Character: 24}

	// What a fresh analysis of the latest text of that document answers
	fresh := InitialState()
	fresh.documents[uri] = InMemoryDocument{Text: text, CheckResult: analysis.CheckSource(text)}
	expected := fresh.handleHover(HoverParams{TextDocumentPositionParams: TextDocumentPositionParams{
		TextDocument: TextDocumentIdentifier{URI: uri},
		Position:     position,
	}})
	if expected == nil || !strings.Contains(expected.Contents.Value, "$a: account") {
		t.Fatalf("precondition: the fresh analysis must identify $a: account, got %#v", expected)
	}
	expectedJson, _ := json.Marshal(expected)

	// Run the real server loop on pipes
	stdinR, stdinW, _ := os.Pipe()
	stdoutR, stdoutW, _ := os.Pipe()
	devnull, _ := os.OpenFile(os.DevNull, os.O_WRONLY, 0)
	oldIn, oldOut, oldErr := os.Stdin, os.Stdout, os.Stderr
	os.Stdin, os.Stdout, os.Stderr = stdinR, stdoutW, devnull
	defer func() { os.Stdin, os.Stdout, os.Stderr = oldIn, oldOut, oldErr }()

	// (stdin is never closed: on EOF the server calls os.Exit)
	go RunServer(ServerArgs[State]{InitialState: InitialState(), Handler: Handle})

	// A well-formed history: one open notification, then one hover request (whose id is -1)
	stdinW.Write(genuine2Frame(map[string]any{
		"jsonrpc": "2.0",
		"method":  "textDocument/didOpen",
		"params": map[string]any{"textDocument": map[string]any{
			"uri": uri, "languageId": "numscript", "version": 1, "text": text,
		}},
	}))
	stdinW.Write(genuine2Frame(map[string]any{
		"jsonrpc": "2.0",
		"id":      -1,
		"method":  "textDocument/hover",
		"params": map[string]any{
			"textDocument": map[string]any{"uri": uri},
			"position":     map[string]any{"line": position.Line, "character": position.Character},
		},
	}))

	type outcome struct {
		result string
		err    error
	}
	done := make(chan outcome, 1)
	go func() {
		reader := bufio.NewReader(stdoutR)
		for {
			msg, err := genuine2ReadFrame(reader)
			if err != nil {
				done <- outcome{err: err}
				return
			}
			if _, isNotification := msg["method"]; isNotification {
				continue // publishDiagnostics
			}
			if string(msg["id"]) == "0" {
				// (the answer of the unchanged server to the didOpen notification:
				// that is another finding, it is not what this test is about)
				continue
			}
			// Only one request was sent, so this has to be its answer
			if id := string(msg["id"]); id != "-1" {
				done <- outcome{err: fmt.Errorf("the hover request with the id -1 is answered by a response with the id %s (result: %s)", id, msg["result"])}
				return
			}
			done <- outcome{result: string(msg["result"])}
			return
		}
	}()

	select {
	case got := <-done:
		os.Stdin, os.Stdout, os.Stderr = oldIn, oldOut, oldErr
		if got.err != nil {
			t.Fatal(got.err)
		}
		if got.result != string(expectedJson) {
			t.Fatalf("the response to the hover request (id -1) inside the use of $a\n  is:       %s\n  expected: %s",
				got.result, expectedJson)
		}
	case <-time.After(10 * time.Second):
		os.Stdin, os.Stdout, os.Stderr = oldIn, oldOut, oldErr
		t.Fatal("no response from the server")
	}
}
