// copy to: internal/analysis
//
// BORDERLINE finding (resource blow-up, not a panic) - see findings.md, item 1.
//
// Property C18 requires that static analysis of ANY document text terminates, because the
// language server is a single process that has to survive every intermediate text.
// A text made of N copies of the comment opener "/*" (a token soup; also reachable from the
// valid script "/* c */ send ..." by duplicating its first token) makes the lexer spend
// ~N^2.2 time and keep ~0.5 KB * N^2 of heap alive FOR THE REST OF THE PROCESS
// (it sits in the static lexer DFA cache): 1600 bytes -> seconds and ~300 MB,
// 8 KB -> minutes and ~8 GB, i.e. the server is killed by a document of a few kilobytes.
//
// The test states "analysis terminates" in a machine independent way: a 1600 byte text may
// cost at most 100 times the time of an ordinary 1600 byte script, and may not leave more
// than 64 MB behind. On the unchanged tree it costs several hundred times more and leaves ~300 MB.
package analysis_test

import (
	"runtime"
	"strings"
	"testing"
	"time"

	"github.com/formancehq/numscript/internal/analysis"
)

func liveHeapMB() int64 {
	runtime.GC()
	var m runtime.MemStats
	runtime.ReadMemStats(&m)
	return int64(m.HeapAlloc >> 20)
}

func TestGenuine1(t *testing.T) {
	const size = 1600

	// an ordinary document of the same size (analysed cold, like the other one)
	ordinary := ""
	for len(ordinary) < size {
		ordinary += "send [USD/2 100] (\n  source = { @a @b }\n  destination = { 1/2 to @c remaining kept }\n)\n"
	}
	ordinary = ordinary[:size] // a prefix: an intermediate text too

	soup := strings.Repeat("/*", size/2)

	t0 := time.Now()
	analysis.CheckSource(ordinary)
	ordinaryTime := time.Since(t0)
	if ordinaryTime < time.Millisecond {
		ordinaryTime = time.Millisecond
	}

	before := liveHeapMB()

	done := make(chan analysis.CheckResult, 1)
	t1 := time.Now()
	go func() { done <- analysis.CheckSource(soup) }()

	select {
	case res := <-done:
		soupTime := time.Since(t1)
		retained := liveHeapMB() - before

		// (the rest of the statement holds: one diagnostic, inside the document)
		for _, d := range res.Diagnostics {
			if d.Range.Start.Line != 0 || d.Range.Start.Character > size {
				t.Errorf("diagnostic outside the document: %v", d.Range)
			}
		}

		if soupTime > 100*ordinaryTime {
			t.Errorf("analysing %d bytes of \"/*\" took %v, %.0f times the %v needed for an ordinary %d byte script (growth is ~N^2.2: a few KB never finish in practice)",
				size, soupTime, float64(soupTime)/float64(ordinaryTime), ordinaryTime, size)
		}
		if retained > 64 {
			t.Errorf("analysing %d bytes of \"/*\" left %d MB of heap alive after GC (static lexer DFA cache; grows with N^2: ~8 GB for an 8 KB text, the process is killed)",
				size, retained)
		}

	case <-time.After(5 * time.Minute):
		t.Fatalf("analysis of a %d byte text did not terminate within 5 minutes", size)
	}
}
