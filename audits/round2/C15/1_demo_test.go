// copy to: internal/parser
package parser_test

import (
	"fmt"
	"math/big"
	"reflect"
	"strings"
	"testing"

	"github.com/formancehq/numscript/internal/parser"
)

// shape1 prints a parsed tree without its ranges (structure and literal values only).
func shape1(v reflect.Value, sb *strings.Builder) {
	switch v.Kind() {
	case reflect.Interface, reflect.Ptr:
		if v.IsNil() {
			sb.WriteString("nil")
			return
		}
		if b, ok := v.Interface().(*big.Int); ok {
			sb.WriteString(b.String())
			return
		}
		shape1(v.Elem(), sb)
	case reflect.Struct:
		if v.Type() == reflect.TypeOf(parser.Range{}) {
			return
		}
		sb.WriteString(v.Type().Name() + "{")
		for i := 0; i < v.NumField(); i++ {
			sb.WriteString(v.Type().Field(i).Name + ":")
			shape1(v.Field(i), sb)
			sb.WriteString(" ")
		}
		sb.WriteString("}")
	case reflect.Slice:
		sb.WriteString("[")
		for i := 0; i < v.Len(); i++ {
			shape1(v.Index(i), sb)
			sb.WriteString(",")
		}
		sb.WriteString("]")
	default:
		fmt.Fprintf(sb, "%#v", v.Interface())
	}
}

func treeShape1(p parser.Program) string {
	var sb strings.Builder
	shape1(reflect.ValueOf(p), &sb)
	return sb.String()
}

// Property C15: inserting whitespace, newlines or comments between tokens never
// changes the parsed tree, and the range of a construct delimits exactly its text.
//
// The base script is well formed (no parse error): two calls, the second argument of
// the first one is a string whose last character is a backslash (a Windows path).
// A comment is then inserted between two tokens (after the ')' of the first call).
// The comment contains a double quote, which is an ordinary character in a comment.
func TestGenuine1(t *testing.T) {
	base := "set_tx_meta(\"dir\", \"C:\\tmp\\\")\nset_tx_meta(\"k\", \"v\")\n"

	baseRes := parser.Parse(base)
	if len(baseRes.Errors) != 0 {
		t.Fatalf("the base script must be well formed, got %v", baseRes.Errors)
	}
	if len(baseRes.Value.Statements) != 2 {
		t.Fatalf("the base script has two statements, got %d", len(baseRes.Value.Statements))
	}
	// the literal value and range of the string in the base script (sanity: these hold)
	baseStr := baseRes.Value.Statements[0].(*parser.FnCall).Args[1].(*parser.StringLiteral)
	if baseStr.String != `C:\tmp\` {
		t.Fatalf("base: unexpected string value %q", baseStr.String)
	}
	want := treeShape1(baseRes.Value)

	comments := []string{
		" /* the \"tmp\" dir */",
		" // the \"tmp\" dir",
		"/* \" */",
	}
	for _, c := range comments {
		// insert the comment between the ')' that ends the first statement and the newline
		src := strings.Replace(base, ")\n", ")"+c+"\n", 1)
		res := parser.Parse(src)
		if len(res.Errors) != 0 {
			t.Errorf("inserting the comment %q between two tokens of a well-formed script makes it ill formed:\n%s\n%v", c, src, res.Errors)
		}
		if got := treeShape1(res.Value); got != want {
			t.Errorf("inserting the comment %q between two tokens changed the parsed tree\nscript: %q\nwant: %s\ngot:  %s", c, src, want, got)
		}
		// the range of the string literal must delimit exactly the text "C:\tmp\" (with its quotes)
		if call, ok := res.Value.Statements[0].(*parser.FnCall); ok && len(call.Args) == 2 {
			if s, ok := call.Args[1].(*parser.StringLiteral); ok {
				line := []rune(strings.Split(src, "\n")[s.Range.Start.Line])
				text := string(line[s.Range.Start.Character:s.Range.End.Character])
				if text != `"C:\tmp\"` {
					t.Errorf("the range of the string literal delimits %q instead of %q", text, `"C:\tmp\"`)
				}
			}
		}
	}
}
