// copy to: internal/parser
package parser_test

import (
	"fmt"
	"math/big"
	"reflect"
	"strings"
	"testing"

	"github.com/formancehq/numscript/internal/parser"
)

// shape2 prints a parsed tree without its ranges (structure and literal values only).
func shape2(v reflect.Value, sb *strings.Builder) {
	switch v.Kind() {
	case reflect.Interface, reflect.Ptr:
		if v.IsNil() {
			sb.WriteString("nil")
			return
		}
		if b, ok := v.Interface().(*big.Int); ok {
			sb.WriteString(b.String())
			return
		}
		shape2(v.Elem(), sb)
	case reflect.Struct:
		if v.Type() == reflect.TypeOf(parser.Range{}) {
			return
		}
		sb.WriteString(v.Type().Name() + "{")
		for i := 0; i < v.NumField(); i++ {
			sb.WriteString(v.Type().Field(i).Name + ":")
			shape2(v.Field(i), sb)
			sb.WriteString(" ")
		}
		sb.WriteString("}")
	case reflect.Slice:
		sb.WriteString("[")
		for i := 0; i < v.Len(); i++ {
			shape2(v.Index(i), sb)
			sb.WriteString(",")
		}
		sb.WriteString("]")
	default:
		fmt.Fprintf(sb, "%#v", v.Interface())
	}
}

func treeShape2(p parser.Program) string {
	var sb strings.Builder
	shape2(reflect.ValueOf(p), &sb)
	return sb.String()
}

// Property C15: the parsed tree of a token sequence is the same under every layout
// (spaces, tabs, newlines, comments between any two tokens).
//
// The same sequence of tokens is laid out with different separators between two
// adjacent value expressions: a number followed by an asset that starts with '/'
// (and: an all-digit asset ending in '/' followed by a number).
// With a tab, two blanks, a newline or a comment there are two value expressions;
// with exactly ONE blank the two tokens and the blank are fused into a single
// ratio literal (RATIO_PORTION_LITERAL admits one blank on each side of the '/').
func TestGenuine2(t *testing.T) {
	cases := []struct{ before, tokA, tokB, after string }{
		// in-order source made of two sources: the number 10 and the asset /2
		{"send [USD 1] (source = { ", "10", "/2", " } destination = @d)"},
		// in-order source made of two sources: the asset 10/ and the number 2
		{"send [USD 1] (source = { ", "10/", "2", " } destination = @d)"},
		// monetary literal whose asset is 0/ and whose amount is the expression 12/
		{"send [", "0/", "12/", "] (source = @s destination = @d)"},
	}
	seps := []string{"\t", "  ", "\n", " \n ", " /* c */ ", "\t\t", " "}

	for _, c := range cases {
		var ref string
		for i, sep := range seps {
			src := c.before + c.tokA + sep + c.tokB + c.after
			res := parser.Parse(src)
			if len(res.Errors) != 0 {
				t.Errorf("unexpected parse errors for %q: %v", src, res.Errors)
				continue
			}
			got := treeShape2(res.Value)
			if i == 0 {
				ref = got
				continue
			}
			if got != ref {
				t.Errorf("the layout changes the parsed tree\nwith %q between %s and %s: %s\nwith %q between %s and %s: %s",
					seps[0], c.tokA, c.tokB, ref, sep, c.tokA, c.tokB, got)
			}
		}
	}
}
