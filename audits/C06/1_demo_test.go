// copy to: internal/interpreter
package interpreter_test

// Property C06, last sentence: "Portions that do not add up to one (without
// `remaining`) are rejected."
//
// An allotment whose portions add up to 5/6 (no `remaining` clause) is nested in an
// ordered destination. Whenever the ordered destination has nothing left for that
// branch (the caps before it absorbed everything, or its own cap is 0), the
// interpreter never looks at the allotment and the script runs successfully.

import (
	"context"
	"fmt"
	"testing"

	genuine1machine "github.com/formancehq/numscript/internal/interpreter"
	genuine1parser "github.com/formancehq/numscript/internal/parser"
)

func TestGenuine1(t *testing.T) {
	// portions given as variables: the static checker cannot know their sum,
	// the interpreter is the only place where they can be rejected
	script := func(amount int) string {
		return fmt.Sprintf(`vars {
  portion $p
  portion $q
}
send [COIN %d] (
  source = @world
  destination = {
    max [COIN 10] to @a
    remaining to {
      $p to @b
      $q to @c
    }
  }
)
`, amount)
	}
	vars := map[string]string{"p": "1/2", "q": "1/3"} // 1/2 + 1/3 = 5/6 != 1

	for amount := 0; amount <= 20; amount++ {
		parsed := genuine1parser.Parse(script(amount))
		if len(parsed.Errors) != 0 {
			t.Fatalf("unexpected parse errors: %v", parsed.Errors)
		}
		res, err := genuine1machine.RunProgram(
			context.Background(),
			parsed.Value,
			vars,
			genuine1machine.StaticStore{},
			nil,
		)
		if err == nil {
			t.Errorf("amount %d: the allotment { 1/2 to @b  1/3 to @c } (sum 5/6, no remaining) was not rejected; postings: %v",
				amount, res.Postings)
		}
	}
}
