// copy to: internal/interpreter
package interpreter_test

import (
	"context"
	"math/big"
	"testing"

	machine "github.com/formancehq/numscript/internal/interpreter"
	"github.com/formancehq/numscript/internal/parser"
)

// Property C05: every unit of a send is credited to the destination account the
// script names, unless it is routed to a `kept` clause. The script below has NO
// `kept` clause, so credited amounts must add up to the amount sent, and the
// account held by the variable $d must be credited min(cap, amount) = 3.
//
// The interpreter accepts any string as the value of an `account` variable; the
// value "<kept>" collides with the in-band sentinel (KEPT_ADDR) that the
// interpreter uses internally for `kept` clauses, so the 3 units vanish.
func TestGenuine1(t *testing.T) {
	const dest = "<kept>"

	parsed := parser.Parse(`vars { account $d }
send [COIN 10] (
	source = @world
	destination = {
		max [COIN 3] to $d
		remaining to @b
	}
)`)
	if len(parsed.Errors) != 0 {
		t.Fatalf("unexpected parse errors: %v", parsed.Errors)
	}

	res, err := machine.RunProgram(
		context.Background(),
		parsed.Value,
		map[string]string{"d": dest},
		machine.StaticStore{},
		nil,
	)
	if err != nil {
		t.Fatalf("unexpected error: %v", err)
	}

	credited := map[string]*big.Int{}
	total := new(big.Int)
	for _, p := range res.Postings {
		if credited[p.Destination] == nil {
			credited[p.Destination] = new(big.Int)
		}
		credited[p.Destination].Add(credited[p.Destination], p.Amount)
		total.Add(total, p.Amount)
	}
	get := func(a string) *big.Int {
		if credited[a] == nil {
			return new(big.Int)
		}
		return credited[a]
	}

	// the first clause receives min(cap, what is left) = min(3, 10) = 3
	if get(dest).Cmp(big.NewInt(3)) != 0 {
		t.Errorf("account %q (value of $d) should be credited 3, got %s (postings: %v)", dest, get(dest), res.Postings)
	}
	// remaining receives what is left after the caps
	if get("b").Cmp(big.NewInt(7)) != 0 {
		t.Errorf("account b should be credited 7, got %s", get("b"))
	}
	// no `kept` clause in the script: credited + kept(=0) must equal the amount sent
	if total.Cmp(big.NewInt(10)) != 0 {
		t.Errorf("credited amounts add up to %s, but 10 were sent and nothing is declared as kept", total)
	}
}
