#!/bin/sh
# Builds the harness once (warms the go build cache) from files on disk only.
set -e
cd "$(dirname "$0")"
export GOFLAGS=-mod=mod GOPROXY=off GOSUMDB=off GOTOOLCHAIN=local
mkdir -p .build/setup evidence
REPO="${VERIF_REPO:-/repo}"
printf '{"Replace": {"%s/verifapi/api.go": "%s/harness/_overlay/api.go"}}' "$REPO" "$(pwd)" > .build/setup/overlay.json
cd harness
go test -c -vet=off -overlay=../.build/setup/overlay.json -o ../.build/setup/props.test ./props
echo "setup ok"
